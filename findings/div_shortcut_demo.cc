// Demonstrates (through the public API) the known finding behind the C05/C16 kernel
// assertion "short cut returns a value where the scalar case is invalid":
//   DIVIDE(0, f), DIVIDE(f, f), MODULO(0, f), MODULO(f, f) with f(x) == 0 for some x
// return a value everywhere instead of raising DIVIDE_BY_ZERO.
// build: g++ -std=c++17 -I/repo/src div_shortcut_demo.cc <all /repo/src objects> -lgmp
#include "meddly.h"
#include <cstdio>
using namespace MEDDLY;
int main() {
  initialize();
  int bounds[2] = {2, 2};
  domain* d = domain::createBottomUp(bounds, 2);
  forest* f = forest::create(d, SET, range_type::INTEGER, edge_labeling::MULTI_TERMINAL);
  dd_edge zero(f), g(f), r(f);
  f->createConstant(rangeval(0L), zero);
  // g(x1,x2) = x1  (zero at x1 == 0, one at x1 == 1)
  f->createEdgeForVar(1, false, g);
  int bad = 0;
  struct { const char* name; binary_factory& op; dd_edge& a; dd_edge& b; } cases[] = {
    {"DIVIDE(0,g)", DIVIDE(), zero, g}, {"DIVIDE(g,g)", DIVIDE(), g, g},
    {"MODULO(0,g)", MODULO(), zero, g}, {"MODULO(g,g)", MODULO(), g, g} };
  for (auto& c : cases) {
    try {
      apply(c.op, c.a, c.b, r);
      minterm m(f); m.setVar(1, 0); m.setVar(2, 0);
      rangeval v; r.evaluate(m, v);
      printf("%s returned a value (at x1=0: %ld) instead of DIVIDE_BY_ZERO\n", c.name, long(v));
      bad++;
    } catch (MEDDLY::error e) {
      printf("%s raised %s\n", c.name, e.getName());
    }
  }
  // control: a divisor edge that is explicitly met at terminal level does raise
  try { dd_edge one(f); f->createConstant(rangeval(1L), one); apply(DIVIDE, one, g, r); printf("DIVIDE(1,g) returned a value\n"); bad++; }
  catch (MEDDLY::error e) { printf("DIVIDE(1,g) raised %s (control)\n", e.getName()); }
  cleanup();
  return bad ? 1 : 0;
}
