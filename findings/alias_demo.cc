// Public-API probe: result edge aliasing the first operand of an EV+ / EV* arithmetic operation.
#include "meddly.h"
#include <cstdio>
using namespace MEDDLY;
static long at(dd_edge& r, forest* f, int x1) { minterm m(f); m.setVar(1, x1); m.setVar(2, 0); rangeval v; r.evaluate(m, v); return v.isPlusInfinity() ? -999 : long(v); }
int main() {
  initialize();
  int bounds[2] = {2, 2};
  domain* d = domain::createBottomUp(bounds, 2);
  forest* f = forest::create(d, SET, range_type::INTEGER, edge_labeling::EVPLUS);
  int bad = 0;
  for (int pass = 0; pass < 2; pass++) {
    dd_edge a(f), b(f), c(f);
    rangeval ta[2] = { rangeval(5L), rangeval(9L) };  f->createEdgeForVar(1, false, ta, a);
    rangeval tb[2] = { rangeval(7L), rangeval(2L) };  f->createEdgeForVar(1, false, tb, b);
    binary_factory& OP = pass == 0 ? PLUS() : MINUS();
    apply(OP, a, b, c);
    long c0 = at(c, f, 0), c1 = at(c, f, 1);
    apply(OP, a, b, a);                 // result edge is the first operand
    long a0 = at(a, f, 0), a1 = at(a, f, 1);
    printf("%s: separate result (%ld,%ld), in-place result (%ld,%ld)%s\n", pass == 0 ? "PLUS" : "MINUS", c0, c1, a0, a1, (a0 == c0 && a1 == c1) ? "" : "  <-- differs");
    if (a0 != c0 || a1 != c1) bad++;
  }
  cleanup();
  return bad ? 1 : 0;
}
