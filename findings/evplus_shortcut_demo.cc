// Public-API demonstration of the EV+ short-cut findings behind the C05/C16 kernel assertions.
//   g(x1) = +infinity at x1 == 0, 5 at x1 == 1;  z(x1) = 0 at x1 == 0, 7 at x1 == 1
//   (1) MINUS(inf, g) and MINUS(g, g) return a value where inf - inf must raise SUBTRACT_INFINITY
//   (2) MULTIPLY(0, g) returns 0 at x1 == 0 (short cut) while MULTIPLY(z, g) returns +infinity there
//       (terminal rule 0 * inf = inf): the pointwise result depends on the operand's structure.
#include "meddly.h"
#include <cstdio>
using namespace MEDDLY;
static void show(const char* what, dd_edge& r, forest* f) {
  minterm m(f); m.setVar(1, 0); m.setVar(2, 0);
  rangeval v; r.evaluate(m, v);
  if (v.isPlusInfinity()) printf("%s: value at x1=0 is +infinity\n", what); else printf("%s: value at x1=0 is %ld\n", what, long(v));
}
int main() {
  initialize();
  int bounds[2] = {2, 2};
  domain* d = domain::createBottomUp(bounds, 2);
  forest* f = forest::create(d, SET, range_type::INTEGER, edge_labeling::EVPLUS);
  rangeval INF(range_special::PLUS_INFINITY, range_type::INTEGER);
  dd_edge inf(f), zero(f), g(f), z(f), r(f);
  f->createConstant(INF, inf);
  f->createConstant(rangeval(0L), zero);
  rangeval tg[2] = { INF, rangeval(5L) };  f->createEdgeForVar(1, false, tg, g);
  rangeval tz[2] = { rangeval(0L), rangeval(7L) };  f->createEdgeForVar(1, false, tz, z);
  int bad = 0;
  try { apply(MINUS, inf, g, r); show("MINUS(inf,g) returned", r, f); bad++; } catch (MEDDLY::error e) { printf("MINUS(inf,g) raised %s\n", e.getName()); }
  try { apply(MINUS, g, g, r); show("MINUS(g,g) returned", r, f); bad++; } catch (MEDDLY::error e) { printf("MINUS(g,g) raised %s\n", e.getName()); }
  try { apply(MINUS, z, g, r); show("MINUS(z,g) returned", r, f); } catch (MEDDLY::error e) { printf("MINUS(z,g) raised %s (control)\n", e.getName()); }
  try { apply(MULTIPLY, zero, g, r); show("MULTIPLY(0,g)", r, f); } catch (MEDDLY::error e) { printf("MULTIPLY(0,g) raised %s\n", e.getName()); }
  try { apply(MULTIPLY, z, g, r); show("MULTIPLY(z,g) [z(x1=0)=0]", r, f); } catch (MEDDLY::error e) { printf("MULTIPLY(z,g) raised %s\n", e.getName()); }
  cleanup();
  return bad ? 1 : 0;
}
