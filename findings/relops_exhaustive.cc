// exhaustive check of UNION / INTERSECTION / DIFFERENCE / COPY on boolean relations over 2 variables of size 2 (16 pairs -> 65536 relations;
// sampled by stride), operands in distinct forests of every rule combination, result in a third forest or in the first.
#include "src/meddly.h"
#include <cstdio>
#include <cstdlib>
using namespace MEDDLY;
static forest* makeForest(domain* D, char rule) {
    policies p; p.useDefaults(RELATION);
    if ('Q' == rule) p.setQuasiReduced();
    if ('F' == rule) p.setFullyReduced();
    if ('I' == rule) p.setIdentityReduced();
    return forest::create(D, RELATION, range_type::BOOLEAN, edge_labeling::MULTI_TERMINAL, p);
}
static void build(forest* f, unsigned bits, dd_edge &e) {
    dd_edge acc(f); f->createConstant(false, acc);
    for (int k = 0; k < 16; k++) if (bits & (1u << k)) {
        minterm m(f); m.setVars(2, (k>>3)&1, (k>>2)&1); m.setVars(1, (k>>1)&1, k&1); m.setValue(true);
        dd_edge t(f); m.buildFunction(false, t);
        apply(UNION, acc, t, acc);
    }
    e = acc;
}
static unsigned readback(forest* f, const dd_edge &e) {
    unsigned bits = 0; minterm m(f);
    for (int k = 0; k < 16; k++) { m.setVars(2, (k>>3)&1, (k>>2)&1); m.setVars(1, (k>>1)&1, k&1); bool got; e.evaluate(m, got); if (got) bits |= 1u << k; }
    return bits;
}
int main(int argc, char** argv) {
    unsigned stride = argc > 1 ? atoi(argv[1]) : 997;
    MEDDLY::initialize();
    int sizes[] = { 2, 2 };
    domain* D = domain::createBottomUp(sizes, 2);
    const char rules[3] = { 'Q', 'I', 'F' };
    long checked = 0, wrong = 0;
    for (int r1 = 0; r1 < 3; r1++) for (int r2 = 0; r2 < 3; r2++) for (int r3 = 0; r3 < 4; r3++) {
        forest* F1 = makeForest(D, rules[r1]); forest* F2 = makeForest(D, rules[r2]); forest* FR = r3 < 3 ? makeForest(D, rules[r3]) : F1;
        for (unsigned a = 1; a < 65536; a += stride) for (unsigned b = 3; b < 65536; b += 4 * stride + 1) {
            dd_edge A(F1), B(F2), C(FR);
            build(F1, a, A); build(F2, b, B);
            try {
                apply(UNION, A, B, C);        if (readback(FR, C) != (a | b)) { wrong++; printf("UNION wrong %c %c -> %c a=%x b=%x\n", rules[r1], rules[r2], r3<3?rules[r3]:'1', a, b); }
                apply(INTERSECTION, A, B, C); if (readback(FR, C) != (a & b)) { wrong++; printf("INTER wrong %c %c -> %c a=%x b=%x\n", rules[r1], rules[r2], r3<3?rules[r3]:'1', a, b); }
                apply(DIFFERENCE, A, B, C);   if (readback(FR, C) != (a & ~b)) { wrong++; printf("DIFF wrong %c %c -> %c a=%x b=%x\n", rules[r1], rules[r2], r3<3?rules[r3]:'1', a, b); }
                apply(COPY, B, C);            if (readback(FR, C) != b) { wrong++; printf("COPY wrong %c -> %c b=%x\n", rules[r2], r3<3?rules[r3]:'1', b); }
                if (readback(F1, A) != a || readback(F2, B) != b) { wrong++; printf("operand changed\n"); }
            } catch (MEDDLY::error e) { wrong++; printf("exception %s at %s:%u  %c %c -> %c a=%x b=%x\n", e.getName(), e.getFile(), e.getLine(), rules[r1], rules[r2], r3<3?rules[r3]:'1', a, b); }
            checked += 4;
            if (wrong > 20) { printf("too many\n"); return 1; }
        }
    }
    printf("checked %ld results, %ld wrong\n", checked, wrong);
    return wrong ? 1 : 0;
}
