// Public-API demonstration: copying an EV+ function that is +infinity somewhere.
#include "meddly.h"
#include <cstdio>
using namespace MEDDLY;
static void show(const char* what, dd_edge& r, forest* f, int x1) {
  minterm m(f); m.setVar(1, x1); m.setVar(2, 0);
  rangeval v; r.evaluate(m, v);
  if (v.isPlusInfinity()) printf("%s at x1=%d: +infinity\n", what, x1); else if (v.isInteger()) printf("%s at x1=%d: %ld\n", what, x1, long(v));
  else if (v.isBoolean()) printf("%s at x1=%d: %d\n", what, x1, int(bool(v))); else printf("%s at x1=%d: %g\n", what, x1, double(v));
}
int main() {
  initialize();
  int bounds[2] = {2, 2};
  domain* d = domain::createBottomUp(bounds, 2);
  forest* ev = forest::create(d, SET, range_type::INTEGER, edge_labeling::EVPLUS);
  forest* mti = forest::create(d, SET, range_type::INTEGER, edge_labeling::MULTI_TERMINAL);
  forest* mtb = forest::create(d, SET, range_type::BOOLEAN, edge_labeling::MULTI_TERMINAL);
  forest* ev2 = forest::create(d, SET, range_type::INTEGER, edge_labeling::EVPLUS);
  rangeval INF(range_special::PLUS_INFINITY, range_type::INTEGER);
  dd_edge g(ev), ci(mti), cb(mtb), c2(ev2);
  rangeval tg[2] = { INF, rangeval(5L) };  ev->createEdgeForVar(1, false, tg, g);
  show("source g (EV+)", g, ev, 0); show("source g (EV+)", g, ev, 1);
  try { apply(COPY, g, ci); show("copy to MT integer", ci, mti, 0); show("copy to MT integer", ci, mti, 1); } catch (MEDDLY::error e) { printf("copy to MT integer raised %s\n", e.getName()); }
  try { apply(COPY, g, cb); show("copy to MT boolean", cb, mtb, 0); show("copy to MT boolean", cb, mtb, 1); } catch (MEDDLY::error e) { printf("copy to MT boolean raised %s\n", e.getName()); }
  try { apply(COPY, g, c2); show("copy to another EV+ forest", c2, ev2, 0); show("copy to another EV+ forest", c2, ev2, 1); } catch (MEDDLY::error e) { printf("copy to EV+ raised %s\n", e.getName()); }
  cleanup();
  return 0;
}
