//
// UNION of two boolean relations held in two DISTINCT relation forests
// that use the SAME reduction rule (unmodified library).
//
// Domain: one variable of size 2.  A = { 0->0 } in forest F1,
// B = { 1->0 } in forest F2, result requested in F1.
//
//   usage: union_crash_demo [Q|I|F]      (default Q = quasi-reduced)
//
// Exit: 0 result correct, 1 wrong or malformed result, 2 MEDDLY exception
// from apply (a crash never gets that far).
//
#include "src/meddly.h"
#include <cstdio>

using namespace MEDDLY;

static forest* makeForest(domain* D, char rule)
{
    policies p;
    p.useDefaults(RELATION);
    if ('Q' == rule) p.setQuasiReduced();
    if ('F' == rule) p.setFullyReduced();
    if ('I' == rule) p.setIdentityReduced();
    return forest::create(D, RELATION, range_type::BOOLEAN,
            edge_labeling::MULTI_TERMINAL, p);
}

static void singleton(forest* f, int from, int to, dd_edge &e)
{
    minterm m(f);
    m.setVars(1, from, to);
    m.setValue(true);
    m.buildFunction(false, e);
}

int main(int argc, const char** argv)
{
    const char rule = (argc > 1) ? argv[1][0] : 'Q';
    setvbuf(stdout, nullptr, _IONBF, 0);

    MEDDLY::initialize();
    int sizes[] = { 2 };
    domain* D = domain::createBottomUp(sizes, 1);

    forest* F1 = makeForest(D, rule);
    forest* F2 = makeForest(D, rule);
    printf("two distinct relation forests, both %s, one variable of size 2\n",
            nameOf(F1->getReductionRule()));

    dd_edge A(F1), B(F2), C(F1);
    singleton(F1, 0, 0, A);
    singleton(F2, 1, 0, B);
    printf("A = { 0->0 } in F1,  B = { 1->0 } in F2,  C = A union B in F1\n");
    fflush(stdout);

    try {
        apply(UNION, A, B, C);
    }
    catch (MEDDLY::error e) {
        printf("MEDDLY exception %s thrown at %s:%u\n",
                e.getName(), e.getFile(), e.getLine());
        return 2;
    }
    printf("apply(UNION) returned; graph of C:\n");
    FILE_output out(stdout);
    C.showGraph(out);

    int wrong = 0;
    minterm m(F1);
    for (int from = 0; from < 2; from++)
    for (int to = 0; to < 2; to++) {
        m.setVars(1, from, to);
        bool got;
        try {
            C.evaluate(m, got);
        }
        catch (MEDDLY::error e) {
            printf("  C(%d->%d): evaluate threw MEDDLY exception %s at %s:%u"
                   " (C is not a well-formed diagram)\n", from, to,
                   e.getName(), e.getFile(), e.getLine());
            ++wrong;
            continue;
        }
        const bool want = (0 == from && 0 == to) || (1 == from && 0 == to);
        printf("  C(%d->%d) = %d, expected %d%s\n", from, to, int(got),
                int(want), (got == want) ? "" : "   <-- WRONG");
        if (got != want) ++wrong;
    }
    printf(wrong ? "wrong or malformed result\n" : "result correct\n");
    return wrong ? 1 : 0;
}
