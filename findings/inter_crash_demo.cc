//
// INTERSECTION of two boolean relations held in two DISTINCT
// identity-reduced relation forests (unmodified library).
//
// Domain: one variable of size 2.  A = { 0->0 } in forest I1,
// B = { 0->0 } in forest I2 (the same one-element relation in both).
// The result is requested in a third forest.
//
//   usage: inter_crash_demo [Q|F|I|1]
//      Q (default)  result in a quasi-reduced forest
//      F            result in a fully-reduced forest
//      I            result in a third identity-reduced forest
//      1            result in I1 itself
//
// Exit: 0 result correct, 1 wrong or malformed result, 2 MEDDLY exception
// from apply (a crash never gets that far).
//
#include "src/meddly.h"
#include <cstdio>

using namespace MEDDLY;

static forest* makeForest(domain* D, char rule)
{
    policies p;
    p.useDefaults(RELATION);
    if ('Q' == rule) p.setQuasiReduced();
    if ('F' == rule) p.setFullyReduced();
    if ('I' == rule) p.setIdentityReduced();
    return forest::create(D, RELATION, range_type::BOOLEAN,
            edge_labeling::MULTI_TERMINAL, p);
}

static void singleton(forest* f, int from, int to, dd_edge &e)
{
    minterm m(f);
    m.setVars(1, from, to);
    m.setValue(true);
    m.buildFunction(false, e);
}

int main(int argc, const char** argv)
{
    const char res = (argc > 1) ? argv[1][0] : 'Q';
    setvbuf(stdout, nullptr, _IONBF, 0);

    MEDDLY::initialize();
    int sizes[] = { 2 };
    domain* D = domain::createBottomUp(sizes, 1);

    forest* I1 = makeForest(D, 'I');
    forest* I2 = makeForest(D, 'I');
    forest* R = ('1' == res) ? I1 : makeForest(D, res);
    printf("I1, I2: two distinct identity-reduced relation forests, "
           "one variable of size 2\n");
    printf("result forest: %s%s\n", nameOf(R->getReductionRule()),
            ('1' == res) ? " (I1 itself)" : " (a third forest)");

    dd_edge A(I1), B(I2), C(R);
    singleton(I1, 0, 0, A);
    singleton(I2, 0, 0, B);
    printf("A = { 0->0 } in I1,  B = { 0->0 } in I2,  C = A intersect B\n");

    try {
        apply(INTERSECTION, A, B, C);
    }
    catch (MEDDLY::error e) {
        printf("MEDDLY exception %s thrown at %s:%u\n",
                e.getName(), e.getFile(), e.getLine());
        return 2;
    }
    printf("apply(INTERSECTION) returned; graph of C:\n");
    FILE_output out(stdout);
    C.showGraph(out);

    int wrong = 0;
    minterm m(R);
    for (int from = 0; from < 2; from++)
    for (int to = 0; to < 2; to++) {
        m.setVars(1, from, to);
        bool got;
        try {
            C.evaluate(m, got);
        }
        catch (MEDDLY::error e) {
            printf("  C(%d->%d): evaluate threw MEDDLY exception %s at %s:%u"
                   " (C is not a well-formed diagram)\n", from, to,
                   e.getName(), e.getFile(), e.getLine());
            ++wrong;
            continue;
        }
        const bool want = (0 == from && 0 == to);
        printf("  C(%d->%d) = %d, expected %d%s\n", from, to, int(got),
                int(want), (got == want) ? "" : "   <-- WRONG");
        if (got != want) ++wrong;
    }
    printf(wrong ? "wrong or malformed result\n" : "result correct\n");
    return wrong ? 1 : 0;
}
