#!/usr/bin/env python3
"""
ll2c: translate textual LLVM-14 IR (typed pointers) into plain C that CBMC's C
front end accepts.  Prototype for feasibility probing.

usage: ll2c.py in.ll out.c [--roots f1,f2,...] [--skip-bodies regex]
"""
import re, sys, collections

# ----------------------------------------------------------------------------
# Tokenizer
# ----------------------------------------------------------------------------
TOK = re.compile(r'''
    (?P<ws>\s+)
  | (?P<cstr>c"(?:[^"\\]|\\[0-9A-Fa-f]{2}|\\\\)*")
  | (?P<lq>%"(?:[^"\\]|\\.)*")
  | (?P<gq>@"(?:[^"\\]|\\.)*")
  | (?P<loc>%[-a-zA-Z$._0-9]+)
  | (?P<glob>@[-a-zA-Z$._0-9]+)
  | (?P<comdat>\$[-a-zA-Z$._0-9]+|\$"(?:[^"\\]|\\.)*")
  | (?P<meta>![-a-zA-Z$._0-9]*(?:\([^)]*\))?)
  | (?P<attr>\#[0-9]+)
  | (?P<hexf>0x[KLMHR]?[0-9A-Fa-f]+)
  | (?P<flt>-?[0-9]+\.[0-9]*(?:[eE][-+]?[0-9]+)?)
  | (?P<int>-?[0-9]+)
  | (?P<str>"(?:[^"\\]|\\.)*")
  | (?P<dots>\.\.\.)
  | (?P<id>[a-zA-Z_][a-zA-Z0-9_.]*)
  | (?P<p>[()\[\]{}<>,*=:])
''', re.X)

def tokenize(s):
    out = []
    pos = 0
    n = len(s)
    while pos < n:
        if s[pos] == ';':
            break
        m = TOK.match(s, pos)
        if not m:
            raise SyntaxError("cannot tokenize at: " + s[pos:pos+60])
        pos = m.end()
        k = m.lastgroup
        if k == 'ws':
            continue
        out.append((k, m.group(k)))
    return out

class P:
    """token stream"""
    def __init__(self, toks):
        self.t = toks; self.i = 0
    def peek(self, k=0):
        j = self.i + k
        return self.t[j] if j < len(self.t) else ('eof', '')
    def next(self):
        x = self.peek(); self.i += 1; return x
    def accept(self, val):
        if self.peek()[1] == val:
            self.i += 1; return True
        return False
    def expect(self, val):
        x = self.next()
        if x[1] != val:
            raise SyntaxError("expected %r got %r (context %r)" % (val, x, self.t[max(0,self.i-6):self.i+4]))
    def eof(self):
        return self.i >= len(self.t)

# ----------------------------------------------------------------------------
# Types
# ----------------------------------------------------------------------------
class T:
    pass
class TVoid(T):
    def key(self): return 'void'
class TInt(T):
    def __init__(s, n): s.n = n
    def key(s): return 'i%d' % s.n
class TFloat(T):
    def __init__(s, k): s.k = k
    def key(s): return s.k
class TPtr(T):
    def __init__(s, to): s.to = to
    def key(s): return s.to.key() + '*'
class TArr(T):
    def __init__(s, n, el): s.n = n; s.el = el
    def key(s): return '[%d x %s]' % (s.n, s.el.key())
class TVec(T):
    def __init__(s, n, el): s.n = n; s.el = el
    def key(s): return '<%d x %s>' % (s.n, s.el.key())
class TStruct(T):
    def __init__(s, fields, packed): s.fields = fields; s.packed = packed
    def key(s): return ('<{%s}>' if s.packed else '{%s}') % ','.join(f.key() for f in s.fields)
class TNamed(T):
    def __init__(s, name): s.name = name
    def key(s): return s.name
class TFunc(T):
    def __init__(s, ret, params, va): s.ret = ret; s.params = params; s.va = va
    def key(s): return '%s(%s%s)' % (s.ret.key(), ','.join(p.key() for p in s.params), ',...' if s.va else '')
class TOpaque(T):
    def key(s): return 'opaque'
class TLabel(T):
    def key(s): return 'label'
class TMeta(T):
    def key(s): return 'metadata'

FLOATS = ('half', 'float', 'double', 'x86_fp80', 'fp128')

def parse_type(p):
    k, v = p.next()
    if v == 'void': t = TVoid()
    elif k == 'id' and re.fullmatch(r'i[0-9]+', v): t = TInt(int(v[1:]))
    elif v in FLOATS: t = TFloat(v)
    elif v == 'label': t = TLabel()
    elif v == 'metadata': t = TMeta()
    elif v == 'opaque': t = TOpaque()
    elif k in ('loc', 'lq'): t = TNamed(v)
    elif v == '{':
        fs = []
        if not p.accept('}'):
            while True:
                fs.append(parse_type(p))
                if p.accept('}'): break
                p.expect(',')
        t = TStruct(fs, False)
    elif v == '<':
        if p.peek()[1] == '{':
            p.next()
            fs = []
            if not p.accept('}'):
                while True:
                    fs.append(parse_type(p))
                    if p.accept('}'): break
                    p.expect(',')
            p.expect('>')
            t = TStruct(fs, True)
        else:
            n = int(p.next()[1]); p.expect('x'); el = parse_type(p); p.expect('>')
            t = TVec(n, el)
    elif v == '[':
        n = int(p.next()[1]); p.expect('x'); el = parse_type(p); p.expect(']')
        t = TArr(n, el)
    else:
        raise SyntaxError("bad type start %r" % ((k, v),))
    while True:
        if p.accept('*'):
            t = TPtr(t)
        elif p.peek()[1] == '(' :
            # function type
            p.next()
            params = []; va = False
            if not p.accept(')'):
                while True:
                    if p.accept('...'):
                        va = True
                    else:
                        params.append(parse_type(p))
                        skip_param_attrs(p)
                    if p.accept(')'): break
                    p.expect(',')
            t = TFunc(t, params, va)
        else:
            break
    return t

PARAM_ATTRS = {'noundef','nonnull','zeroext','signext','nocapture','readonly','readnone','writeonly',
               'noalias','returned','inreg','nest','immarg','nofree','swiftself','noundef','inalloca','writable'}
def skip_param_attrs(p, collect=None):
    while True:
        k, v = p.peek()
        if k == 'id' and v in PARAM_ATTRS:
            p.next()
            if collect is not None: collect.append(v)
        elif k == 'id' and v in ('align', 'dereferenceable', 'dereferenceable_or_null'):
            p.next()
            if p.accept('('):
                p.next(); p.expect(')')
            else:
                p.next()
        elif k == 'id' and v in ('sret', 'byval', 'byref', 'preallocated', 'elementtype'):
            p.next()
            ty = None
            if p.accept('('):
                ty = parse_type(p); p.expect(')')
            if collect is not None: collect.append((v, ty))
        else:
            break

# ----------------------------------------------------------------------------
# Values
# ----------------------------------------------------------------------------
class V:
    pass
class VLocal(V):
    def __init__(s, name): s.name = name
class VGlobal(V):
    def __init__(s, name): s.name = name
class VInt(V):
    def __init__(s, v): s.v = v
class VFloat(V):
    def __init__(s, text): s.text = text
class VNull(V): pass
class VUndef(V): pass
class VZero(V): pass
class VAgg(V):
    def __init__(s, kind, elems): s.kind = kind; s.elems = elems   # elems: list[(type,V)]
class VCStr(V):
    def __init__(s, data): s.data = data  # bytes
class VCE(V):
    def __init__(s, op, args, extra=None): s.op = op; s.args = args; s.extra = extra

CE_CASTS = ('bitcast','inttoptr','ptrtoint','trunc','zext','sext','addrspacecast','fptrunc','fpext','sitofp','uitofp','fptosi','fptoui')
CE_BIN = ('add','sub','mul','and','or','xor','shl','lshr','ashr','udiv','sdiv','urem','srem')

def parse_cstr(tok):
    s = tok[2:-1]
    out = bytearray(); i = 0
    while i < len(s):
        if s[i] == '\\':
            if s[i+1] == '\\':
                out.append(92); i += 2
            else:
                out.append(int(s[i+1:i+3], 16)); i += 3
        else:
            out.append(ord(s[i])); i += 1
    return bytes(out)

def parse_typed_value(p):
    t = parse_type(p)
    skip_param_attrs(p)
    v = parse_value(p, t)
    return (t, v)

def parse_value(p, t=None):
    k, v = p.next()
    if k in ('loc', 'lq'): return VLocal(v)
    if k in ('glob', 'gq'): return VGlobal(v)
    if k == 'int': return VInt(int(v))
    if k in ('flt', 'hexf'): return VFloat(v)
    if v == 'true': return VInt(1)
    if v == 'false': return VInt(0)
    if v == 'null': return VNull()
    if v in ('undef', 'poison'): return VUndef()
    if v == 'zeroinitializer': return VZero()
    if k == 'cstr': return VCStr(parse_cstr(v))
    if v == '{' or v == '[' or v == '<':
        close = {'{':'}', '[':']', '<':'>'}[v]
        kind = v
        if v == '<' and p.peek()[1] == '{':
            p.next(); kind = '<{'
            elems = []
            if not p.accept('}'):
                while True:
                    elems.append(parse_typed_value(p))
                    if p.accept('}'): break
                    p.expect(',')
            p.expect('>')
            return VAgg(kind, elems)
        elems = []
        if not p.accept(close):
            while True:
                elems.append(parse_typed_value(p))
                if p.accept(close): break
                p.expect(',')
        return VAgg(kind, elems)
    if k == 'id':
        if v == 'getelementptr':
            inb = p.accept('inbounds')
            p.expect('(')
            bt = parse_type(p); p.expect(',')
            args = []
            while True:
                if p.accept('inrange'): pass
                args.append(parse_typed_value(p))
                if p.accept(')'): break
                p.expect(',')
            return VCE('getelementptr', args, bt)
        if v in CE_CASTS:
            p.expect('(')
            a = parse_typed_value(p)
            p.expect('to')
            tt = parse_type(p)
            p.expect(')')
            return VCE(v, [a], tt)
        if v in CE_BIN:
            while p.peek()[1] in ('nsw','nuw','exact'): p.next()
            p.expect('(')
            a = parse_typed_value(p); p.expect(',')
            b = parse_typed_value(p); p.expect(')')
            return VCE(v, [a, b])
        if v in ('icmp', 'fcmp'):
            pred = p.next()[1]
            p.expect('(')
            a = parse_typed_value(p); p.expect(',')
            b = parse_typed_value(p); p.expect(')')
            return VCE(v, [a, b], pred)
        if v == 'select':
            p.expect('(')
            a = parse_typed_value(p); p.expect(',')
            b = parse_typed_value(p); p.expect(',')
            c = parse_typed_value(p); p.expect(')')
            return VCE(v, [a, b, c])
        if v == 'blockaddress' or v == 'dso_local_equivalent' or v == 'no_cfi':
            raise SyntaxError("unsupported constant " + v)
    raise SyntaxError("bad value %r" % ((k, v),))

# ----------------------------------------------------------------------------
# Module
# ----------------------------------------------------------------------------
class Func:
    def __init__(s):
        s.name = None; s.ret = None; s.params = []  # (type, name, attrs)
        s.va = False; s.blocks = None; s.attrs = set(); s.lines = None
        s.linkage = ''

class Global:
    def __init__(s):
        s.name = None; s.type = None; s.init = None; s.external = False; s.constant = False

class Module:
    def __init__(s):
        s.types = collections.OrderedDict()   # name -> T
        s.globals = collections.OrderedDict()
        s.funcs = collections.OrderedDict()
        s.attrgroups = {}
        s.ctors = []
        s.alias_to = {}

LINKAGE = {'private','internal','available_externally','linkonce','weak','common','appending','extern_weak',
           'linkonce_odr','weak_odr','external','dso_local','dso_preemptable','hidden','protected','default',
           'unnamed_addr','local_unnamed_addr','thread_local','dllimport','dllexport','externally_initialized'}

def parse_module(text):
    m = Module()
    lines = text.split('\n')
    for ln in lines:
        if ln.startswith('attributes #'):
            mm = re.match(r'attributes (#\d+) = \{(.*)\}', ln)
            m.attrgroups[mm.group(1)] = set(re.findall(r'[a-z_]+', re.sub(r'"[^"]*"(="[^"]*")?', '', mm.group(2))))
    i = 0
    n = len(lines)
    while i < n:
        ln = lines[i]
        if not ln or ln[0] == ';' or ln.startswith('source_filename') or ln.startswith('target ') or ln[0] == '!' or ln.startswith('$'):
            i += 1; continue
        if ln.startswith('attributes #'):
            mm = re.match(r'attributes (#\d+) = \{(.*)\}', ln)
            m.attrgroups[mm.group(1)] = set(re.findall(r'[a-z_]+', re.sub(r'"[^"]*"(="[^"]*")?', '', mm.group(2))))
            i += 1; continue
        if ln[0] == '%':
            p = P(tokenize(ln))
            name = p.next()[1]
            p.expect('='); p.expect('type')
            m.types[name] = parse_type(p)
            i += 1; continue
        if ln[0] == '@':
            parse_global(m, ln)
            i += 1; continue
        if ln.startswith('declare'):
            f = parse_func_header(ln[len('declare'):], m)
            if f.name not in m.funcs:
                m.funcs[f.name] = f
            i += 1; continue
        if ln.startswith('define'):
            f = parse_func_header(ln[len('define'):], m)
            body = []
            i += 1
            while lines[i] != '}':
                body.append(lines[i]); i += 1
            i += 1
            f.lines = body
            m.funcs[f.name] = f
            continue
        raise SyntaxError("unknown toplevel: " + ln[:80])
    return m

def parse_global(m, ln):
    p = P(tokenize(ln))
    g = Global()
    g.name = p.next()[1]
    p.expect('=')
    while p.peek()[0] == 'id' and p.peek()[1] in LINKAGE:
        x = p.next()[1]
        if x in ('external', 'extern_weak'): g.external = True
        if x == 'thread_local' and p.accept('('):
            p.next(); p.expect(')')
    if p.peek()[1] == 'addrspace':
        p.next(); p.expect('('); p.next(); p.expect(')')
    kw = p.next()[1]
    if kw == 'alias' or kw == 'ifunc':
        # @a = alias T, T* @b
        t = parse_type(p); p.expect(',')
        if p.peek()[1] in ('bitcast', 'getelementptr', 'addrspacecast', 'inttoptr'):
            tv = (TPtr(t), parse_value(p))
        else:
            tv = parse_typed_value(p)
        g.type = t; g.alias = tv
        tgt = tv[1]
        while isinstance(tgt, VCE) and tgt.op == 'bitcast': tgt = tgt.args[0][1]
        if isinstance(tgt, VGlobal):
            m.alias_to[g.name] = tgt.name
        else:
            m.globals[g.name] = g
        return
    g.constant = (kw == 'constant')
    g.type = parse_type(p)
    if not g.external and not p.eof() and p.peek()[1] != ',':
        g.init = parse_value(p, g.type)
    if g.name == '@llvm.global_ctors':
        for (t, e) in g.init.elems:
            m.ctors.append((e.elems[0][1].v, e.elems[1][1]))
        return
    if g.name.startswith('@llvm.'):
        return
    m.globals[g.name] = g

def parse_func_header(s, m):
    # strip trailing '{' and attributes after the closing paren of the params
    p = P(tokenize(s))
    f = Func()
    while True:
        k, v = p.peek()
        if k == 'id' and (v in LINKAGE or v in ('noundef','zeroext','signext','nonnull','noalias','fastcc','ccc','coldcc')):
            p.next(); f.linkage += ' ' + v
        elif k == 'id' and v in ('align','dereferenceable','dereferenceable_or_null'):
            p.next()
            if p.accept('('): p.next(); p.expect(')')
            else: p.next()
        else:
            break
    # return type: parse_type would swallow the param list as a function type; so parse manually
    # find name token index
    j = p.i
    depth = 0
    while not (p.t[j][0] in ('glob', 'gq') and depth == 0):
        if p.t[j][1] in '([{<': depth += 1
        if p.t[j][1] in ')]}>': depth -= 1
        j += 1
    rp = P(p.t[p.i:j])
    f.ret = parse_type(rp)
    p.i = j
    f.name = p.next()[1]
    p.expect('(')
    if not p.accept(')'):
        while True:
            if p.accept('...'):
                f.va = True
            else:
                t = parse_type(p)
                attrs = []
                skip_param_attrs(p, attrs)
                nm = None
                if p.peek()[0] in ('loc', 'lq'):
                    nm = p.next()[1]
                f.params.append((t, nm, attrs))
            if p.accept(')'): break
            p.expect(',')
    while not p.eof():
        k, v = p.next()
        if k == 'attr':
            f.attrs |= m.attrgroups.get(v, set()) if v in m.attrgroups else {('group', v)}
        elif k == 'id' and v == 'nounwind':
            f.attrs.add('nounwind')
    return f

# ----------------------------------------------------------------------------
# C emission
# ----------------------------------------------------------------------------
def cid(name):
    """C identifier for an LLVM name (with sigil)."""
    s = name[1:]
    if s.startswith('"'): s = s[1:-1]
    s = re.sub(r'[^A-Za-z0-9_]', lambda mm: '_%02x' % ord(mm.group(0)), s)
    return s

class Emitter:
    def __init__(s, m):
        s.m = m
        s.tdefs = collections.OrderedDict()  # key -> cname
        s.tdef_code = []                     # emitted typedef code, in order
        s.struct_done = set()
        s.fwd = []
        s.counter = 0
        s.resolved_attr = False
        s.static_asserts = set()
        s.alloc_helpers = collections.OrderedDict()

    # ---------------- types
    def resolve(s, t):
        while isinstance(t, TNamed):
            t = s.m.types[t.name]
        return t

    def ctype(s, t):
        """return a C type name usable as a simple prefix declarator (thanks to typedefs)"""
        if isinstance(t, TVoid): return 'void'
        if isinstance(t, TInt):
            if t.n == 1: return '_Bool'
            if t.n in (8, 16, 32, 64): return 'uint%d_t' % t.n
            if t.n == 128: return 'unsigned __int128'
            return s.tdef('bv%d' % t.n, 'typedef unsigned __CPROVER_bitvector[%d] bv%d;' % (t.n, t.n))
        if isinstance(t, TFloat):
            return {'float':'float', 'double':'double', 'x86_fp80':'long double', 'half':'_Float16', 'fp128':'__float128'}[t.k]
        if isinstance(t, TPtr):
            to = t.to
            if isinstance(to, TVoid): return 'void*'
            if isinstance(to, (TLabel, TMeta)): return 'void*'
            return s.ctype(to) + '*'
        if isinstance(t, TNamed):
            nm = 'S_' + cid(t.name)
            if t.name not in s.tdefs:
                s.tdefs[t.name] = nm
                body = s.m.types.get(t.name)
                if body is None or isinstance(body, TOpaque):
                    s.fwd.append('struct %s; typedef struct %s %s;' % (nm, nm, nm))
                else:
                    s.fwd.append('struct %s; typedef struct %s %s;' % (nm, nm, nm))
            return nm
        if isinstance(t, TStruct):
            key = t.key()
            if key not in s.tdefs:
                s.counter += 1
                nm = 'LS_%d' % s.counter
                s.tdefs[key] = nm
                s.fwd.append('struct %s; typedef struct %s %s;' % (nm, nm, nm))
                s.pending_lit = getattr(s, 'pending_lit', [])
                s.pending_lit.append((nm, t))
            return s.tdefs[key]
        if isinstance(t, TArr):
            key = t.key()
            if key not in s.tdefs:
                el = s.ctype(t.el)
                s.need_complete(t.el)
                s.counter += 1
                nm = 'A_%d' % s.counter
                s.tdefs[key] = nm
                s.tdef_code.append('typedef %s %s[%d];' % (el, nm, 16 if t.n == 0 else t.n))
            return s.tdefs[key]
        if isinstance(t, TFunc):
            key = t.key()
            if key not in s.tdefs:
                ret = s.ctype(t.ret)
                ps = [s.ctype(x) for x in t.params]
                s.counter += 1
                nm = 'F_%d' % s.counter
                s.tdefs[key] = nm
                if t.va and not ps:
                    plist = ''
                else:
                    plist = ', '.join(ps) + (', ...' if t.va else '')
                    if not ps: plist = 'void'
                s.tdef_code.append('typedef %s %s(%s);' % (ret, nm, plist))
            return s.tdefs[key]
        if isinstance(t, TVec):
            raise NotImplementedError("vector type " + t.key())
        if isinstance(t, TOpaque):
            return 'void'
        raise NotImplementedError(str(t))

    def tdef(s, key, code):
        if key not in s.tdefs:
            s.tdefs[key] = key
            s.tdef_code.append(code)
        return key

    def need_complete(s, t):
        """make sure struct body for t is emitted (before something embedding it by value)"""
        if isinstance(t, TNamed):
            s.emit_struct(t.name)
        elif isinstance(t, TStruct):
            s.ctype(t)
            s.flush_literals()
        elif isinstance(t, TArr):
            s.need_complete(t.el)

    def emit_struct(s, name):
        if name in s.struct_done: return
        s.struct_done.add(name)
        nm = s.ctype(TNamed(name))
        body = s.m.types.get(name)
        if body is None or isinstance(body, TOpaque):
            return
        assert isinstance(body, TStruct), name
        s.emit_struct_body(nm, body)

    def emit_struct_body(s, nm, body):
        fields = []
        for i, f in enumerate(body.fields):
            s.need_complete(f)
            fields.append('  %s f%d;' % (s.ctype(f), i))
        if not fields:
            fields = ['  char __empty;'] if False else []
        s.tdef_code.append('struct %s%s {\n%s\n};' % ('__attribute__((packed)) ' if body.packed else '', nm, '\n'.join(fields)))

    def flush_literals(s):
        while getattr(s, 'pending_lit', None):
            nm, t = s.pending_lit.pop(0)
            if nm in s.struct_done: continue
            s.struct_done.add(nm)
            s.emit_struct_body(nm, t)

    # ---------------- layout (x86-64)
    def size_align(s, t):
        t = s.resolve(t)
        if isinstance(t, TInt):
            b = 1 if t.n <= 8 else 2 if t.n <= 16 else 4 if t.n <= 32 else 8 if t.n <= 64 else 16
            return (b, b)
        if isinstance(t, TFloat):
            return {'float':(4,4),'double':(8,8),'x86_fp80':(16,16),'half':(2,2),'fp128':(16,16)}[t.k]
        if isinstance(t, TPtr): return (8, 8)
        if isinstance(t, TArr):
            sz, al = s.size_align(t.el)
            return (sz * t.n, al)
        if isinstance(t, TStruct):
            off = 0; mal = 1
            for f in t.fields:
                sz, al = s.size_align(f)
                if t.packed: al = 1
                off = (off + al - 1) // al * al
                off += sz; mal = max(mal, al)
            off = (off + mal - 1) // mal * mal
            return (off, mal)
        raise NotImplementedError("size of " + t.key())

    # ---------------- type computations
    def gep_type(s, base, idxs):
        """result pointee type of GEP over base type with index list (after the first)"""
        t = base
        for (it, iv) in idxs:
            rt = s.resolve(t)
            if isinstance(rt, TStruct):
                assert isinstance(iv, VInt)
                t = rt.fields[iv.v]
            elif isinstance(rt, (TArr, TVec)):
                t = rt.el
            else:
                raise NotImplementedError("gep into " + rt.key())
        return t

    # ---------------- constants / values
    def sint(s, n):
        return {8:'int8_t',16:'int16_t',32:'int32_t',64:'int64_t',128:'__int128'}.get(n)

    def cint(s, t, v):
        n = t.n
        if n == 1: return '1' if v & 1 else '0'
        v &= (1 << n) - 1
        if n <= 32: return '((%s)%dU)' % (s.ctype(t), v)
        if n <= 64: return '((%s)%dULL)' % (s.ctype(t), v)
        if n == 128:
            return '((((unsigned __int128)%dULL) << 64) | (unsigned __int128)%dULL)' % (v >> 64, v & ((1<<64)-1))
        return '((%s)%dULL)' % (s.ctype(t), v)

    def cfloat(s, t, text):
        import struct
        if text.startswith('0x'):
            body = text[2:]
            if body[0] in 'KLMHR':
                raise NotImplementedError("long double constant")
            bits = int(body, 16)
            d = struct.unpack('<d', struct.pack('<Q', bits))[0]
        else:
            d = float(text)
        if d != d: return '(0.0/0.0)' if t.k == 'double' else '(0.0f/0.0f)'
        if d in (float('inf'), float('-inf')):
            return ('(-' if d < 0 else '(') + ('1.0/0.0)' if t.k == 'double' else '1.0f/0.0f)')
        h = d.hex()
        if t.k == 'float': return '((float)%s)' % h
        if t.k == 'double': return '(%s)' % h
        return '((long double)%s)' % h

    def val(s, t, v, fn=None):
        """C expression for value v of type t"""
        if isinstance(v, VLocal):
            return fn.lname(v.name)
        if isinstance(v, VGlobal):
            return s.gref(v.name, t)
        if isinstance(v, VInt):
            rt = s.resolve(t)
            if isinstance(rt, TInt): return s.cint(rt, v.v)
            raise NotImplementedError("int const of type " + t.key())
        if isinstance(v, VFloat):
            return s.cfloat(s.resolve(t), v.text)
        if isinstance(v, VNull):
            return '((%s)0)' % s.ctype(t)
        if isinstance(v, (VUndef, VZero)):
            rt = s.resolve(t)
            if isinstance(rt, (TInt,)): return s.cint(rt, 0)
            if isinstance(rt, TFloat): return '((%s)0)' % s.ctype(rt)
            if isinstance(rt, TPtr): return '((%s)0)' % s.ctype(t)
            # aggregate zero: use compound literal
            s.need_complete(t)
            return '((%s){0})' % s.ctype(t)
        if isinstance(v, VCE):
            return s.constexpr(t, v, fn)
        if isinstance(v, VAgg):
            s.need_complete(t)
            return '((%s)%s)' % (s.ctype(t), s.init(t, v, fn))
        raise NotImplementedError("value " + repr(v))

    def alloc_helper(s, ct):
        hn = re.sub(r'[^A-Za-z0-9_]', '_', ct.replace('*', '_p'))
        if hn not in s.alloc_helpers:
            s.alloc_helpers[hn] = ct
        return hn

    def mem_helper(s, ct, zero=False):
        hn = re.sub(r'[^A-Za-z0-9_]', '_', ct.replace('*', '_p'))
        if not hasattr(s, 'mem_helpers'): s.mem_helpers = collections.OrderedDict(); s.mem_zero = set()
        s.mem_helpers[hn] = ct
        if zero: s.mem_zero.add(hn)
        return hn

    def canon(s, name):
        seen = 0
        while name in s.m.alias_to and seen < 10:
            name = s.m.alias_to[name]; seen += 1
        return name

    def gref(s, name, t=None):
        """expression for the address denoted by @name"""
        name = s.canon(name)
        g = s.m.globals.get(name)
        if g is not None:
            s.used_globals.add(name)
            if hasattr(g, 'alias'):
                return s.val(g.alias[0], g.alias[1])
            return '(&%s)' % ('G_' + cid(name))
        f = s.m.funcs.get(name)
        if f is not None:
            s.used_funcs.add(name)
            return '(&%s)' % s.fname(name)
        raise KeyError(name)

    def fname(s, name):
        c = cid(name)
        if c in RENAME: return RENAME[c]
        return c

    def constexpr(s, t, v, fn):
        if v.op == 'getelementptr':
            (pt, pv) = v.args[0]
            return s.gep_expr(v.extra, s.val(pt, pv, fn), [(it, s.val(it, iv, fn), iv) for (it, iv) in v.args[1:]])
        if v.op in ('bitcast', 'inttoptr', 'addrspacecast'):
            (at, av) = v.args[0]
            return '((%s)%s)' % (s.ctype(v.extra), s.val(at, av, fn))
        if v.op == 'ptrtoint':
            (at, av) = v.args[0]
            return '((%s)(uintptr_t)%s)' % (s.ctype(v.extra), s.val(at, av, fn))
        if v.op in ('trunc', 'zext'):
            (at, av) = v.args[0]
            return '((%s)%s)' % (s.ctype(v.extra), s.val(at, av, fn))
        if v.op in CE_BIN:
            (at, av), (bt, bv) = v.args
            return s.binop(v.op, at, s.val(at, av, fn), s.val(bt, bv, fn), set())
        if v.op == 'icmp':
            (at, av), (bt, bv) = v.args
            return s.icmp(v.extra, at, s.val(at, av, fn), s.val(bt, bv, fn))
        if v.op == 'select':
            (ct, cv), (at, av), (bt, bv) = v.args
            return '(%s ? %s : %s)' % (s.val(ct, cv, fn), s.val(at, av, fn), s.val(bt, bv, fn))
        raise NotImplementedError("constexpr " + v.op)

    def init(s, t, v, fn=None):
        """brace initializer text for aggregate"""
        rt = s.resolve(t)
        if isinstance(v, VZero) or isinstance(v, VUndef):
            if isinstance(rt, (TStruct, TArr)): return '{0}'
            return s.val(t, v, fn)
        if isinstance(v, VCStr):
            return '{' + ','.join(str(b) for b in v.data) + '}'
        if isinstance(v, VAgg):
            parts = []
            for (et, ev) in v.elems:
                ert = s.resolve(et)
                if isinstance(ert, (TStruct, TArr)):
                    parts.append(s.init(et, ev, fn))
                else:
                    parts.append(s.val(et, ev, fn))
            if not parts: return '{0}'
            return '{' + ', '.join(parts) + '}'
        return s.val(t, v, fn)

    def gep_expr(s, base, pexpr, idxs):
        """idxs: list of (type, cexpr, V)"""
        (it0, ie0, iv0) = idxs[0]
        s.need_complete(base) if len(idxs) > 1 else None
        if isinstance(iv0, VInt) and iv0.v == 0:
            e = '(*%s)' % pexpr
        else:
            e = '(%s)[%s]' % (pexpr, s.sidx(it0, ie0))
        t = base
        for (it, ie, iv) in idxs[1:]:
            rt = s.resolve(t)
            if isinstance(rt, TStruct):
                e = '%s.f%d' % (e, iv.v)
                t = rt.fields[iv.v]
            elif isinstance(rt, TArr):
                e = '%s[%s]' % (e, s.sidx(it, ie))
                t = rt.el
            else:
                raise NotImplementedError("gep into " + rt.key())
        return '(&%s)' % e

    def sidx(s, t, e):
        rt = s.resolve(t)
        st = s.sint(rt.n)
        return '(%s)%s' % (st, e)

    def binop(s, op, t, a, b, flags):
        rt = s.resolve(t)
        if isinstance(rt, TVec): raise NotImplementedError("vector op")
        n = rt.n
        ct = s.ctype(rt)
        if n == 1:
            o = {'add':'^','sub':'^','xor':'^','and':'&','or':'|','mul':'&'}.get(op)
            if o is None: raise NotImplementedError("i1 " + op)
            return '((_Bool)((%s %s %s) & 1))' % (a, o, b)
        st = s.sint(n)
        if st is None:
            st = 'signed __CPROVER_bitvector[%d]' % n
        if op in ('add', 'sub', 'mul'):
            o = {'add':'+','sub':'-','mul':'*'}[op]
            # 'nsw' is NOT turned into signed C arithmetic: LLVM may speculate poison-generating
            # instructions whose result is never used, which CBMC's signed-overflow check would
            # report as a failure of the real code.  All integer arithmetic wraps (IR semantics
            # of the defined cases); source-level signed-overflow UB is outside the checks.
            if n < 32:
                return '((%s)((unsigned)%s %s (unsigned)%s))' % (ct, a, o, b)
            return '((%s)(%s %s %s))' % (ct, a, o, b)
        if op in ('and', 'or', 'xor'):
            o = {'and':'&','or':'|','xor':'^'}[op]
            return '((%s)(%s %s %s))' % (ct, a, o, b)
        if op == 'shl':
            return '((%s)(%s << %s))' % (ct, a, b)
        if op == 'lshr':
            return '((%s)(%s >> %s))' % (ct, a, b)
        if op == 'ashr':
            return '((%s)((%s)%s >> %s))' % (ct, st, a, b)
        if op == 'udiv': return '((%s)(%s / %s))' % (ct, a, b)
        if op == 'urem': return '((%s)(%s %% %s))' % (ct, a, b)
        if op == 'sdiv': return '((%s)((%s)%s / (%s)%s))' % (ct, st, a, st, b)
        if op == 'srem': return '((%s)((%s)%s %% (%s)%s))' % (ct, st, a, st, b)
        raise NotImplementedError(op)

    def icmp(s, pred, t, a, b):
        rt = s.resolve(t)
        if isinstance(rt, TPtr):
            if pred in ('eq', 'ne'):
                return '((void*)%s %s (void*)%s)' % (a, '==' if pred == 'eq' else '!=', b)
            o = {'ult':'<','ule':'<=','ugt':'>','uge':'>='}[pred]
            return '((uintptr_t)%s %s (uintptr_t)%s)' % (a, o, b)
        n = rt.n
        if pred in ('eq', 'ne'):
            return '(%s %s %s)' % (a, '==' if pred == 'eq' else '!=', b)
        if pred[0] == 'u':
            o = {'ult':'<','ule':'<=','ugt':'>','uge':'>='}[pred]
            return '(%s %s %s)' % (a, o, b)
        o = {'slt':'<','sle':'<=','sgt':'>','sge':'>='}[pred]
        st = s.sint(n) or ('signed __CPROVER_bitvector[%d]' % n)
        if n == 1:
            return '((-(int)%s) %s (-(int)%s))' % (a, o, b)
        return '((%s)%s %s (%s)%s)' % (st, a, o, st, b)


RENAME = {'__assert_fail': '__ll2c_assert_fail', 'abort': '__ll2c_abort', 'exit': '__ll2c_exit', 'free': '__ll2c_free'}
LIBC = {'bcmp','malloc','realloc','calloc','memcpy','memmove','memset','memcmp','strlen','strcmp','strncmp','strcpy','strncpy',
        'printf','fprintf','puts','fputs','fputc','putc','putchar','fflush','fwrite','sprintf','snprintf','strdup',
        'round','roundf','fabs','fabsf','floor','ceil','sqrt','fmod','fmodf','log','exp','pow','strtol','atoi','atol','getrusage'}

# ----------------------------------------------------------------------------
# Function body translation
# ----------------------------------------------------------------------------
class FnCtx:
    def __init__(s, em, f):
        s.em = em; s.f = f
        s.locals = collections.OrderedDict()   # llvm name -> (cname, T)
        s.out = []
        s.extra_decls = []
        s.tmpc = 0
        s.defs = {}

    def lname(s, name):
        return 'v_' + cid(name)

    def declare(s, name, t):
        s.locals[name] = (s.lname(name), t)

    def tmp(s, ctype):
        s.tmpc += 1
        nm = 'tmp_%d' % s.tmpc
        s.extra_decls.append('%s %s;' % (ctype, nm))
        return nm

def split_blocks(f):
    """-> list of (label, [lines])"""
    blocks = []
    cur = None
    # entry label: implicit numbered after params
    nparams = len(f.params)
    # unnamed params are %0..%n-1, entry block is %n unless named
    named = [p for p in f.params if p[1] is not None]
    for ln in f.lines:
        if not ln.strip(): continue
        mm = re.match(r'^([-a-zA-Z$._0-9]+|"(?:[^"\\]|\\.)*"):', ln)
        if mm and not ln.startswith(' '):
            cur = ('%' + mm.group(1), [])
            blocks.append(cur)
            continue
        if cur is None:
            # entry
            cur = (None, [])
            blocks.append(cur)
        cur[1].append(ln)
    return blocks

TERMS = ('br', 'ret', 'switch', 'invoke', 'resume', 'unreachable', 'indirectbr')

def zero_ret(em, f):
    rt = em.resolve(f.ret)
    if isinstance(rt, TVoid): return 'return;'
    if isinstance(rt, (TStruct, TArr)):
        em.need_complete(f.ret)
        return 'return (%s){0};' % em.ctype(f.ret)
    return 'return (%s)0;' % em.ctype(f.ret)

def callee_nounwind(em, callee_v, attrs_tokens):
    if 'nounwind' in attrs_tokens: return True
    if isinstance(callee_v, VGlobal):
        f = em.m.funcs.get(em.canon(callee_v.name))
        if f is not None and 'nounwind' in f.attrs: return True
        if callee_v.name.startswith('@llvm.'): return True
    return False

def translate_function(em, f):
    fc = FnCtx(em, f)
    blocks = split_blocks(f)
    # name unnamed params / entry
    pnames = []
    cnt = 0
    for (t, nm, attrs) in f.params:
        if nm is None:
            nm = '%%%d' % cnt; cnt += 1
        elif re.fullmatch(r'%\d+', nm):
            cnt = max(cnt, int(nm[1:]) + 1)
        pnames.append(nm)
    entry_label = None
    if blocks and blocks[0][0] is None:
        entry_label = '%%%d' % cnt
        blocks[0] = (entry_label, blocks[0][1])
    # first pass: parse instructions
    parsed = []   # (label, [instr dict])
    for (lab, lines) in blocks:
        ins = []
        j = 0
        while j < len(lines):
            ln = lines[j]
            # switch spans multiple lines
            if re.match(r'\s*switch ', ln) and ln.rstrip().endswith('['):
                k = j + 1
                while not lines[k].strip().startswith(']'):
                    ln += ' ' + lines[k].strip(); k += 1
                ln += ' ]'
                j = k
            # landingpad clauses span lines
            if re.search(r'= landingpad ', ln):
                k = j + 1
                while k < len(lines) and re.match(r'\s+(cleanup|catch|filter)\b', lines[k]):
                    ln += ' ' + lines[k].strip(); k += 1
                j = k - 1
            # invoke continuation line
            if re.match(r'\s*(%\S+ = )?invoke ', ln) and j + 1 < len(lines) and lines[j+1].strip().startswith('to label'):
                ln += ' ' + lines[j+1].strip(); j += 1
            if 'llvm.experimental.noalias.scope.decl' in ln or '@llvm.dbg.' in ln:
                j += 1; continue
            ins.append(parse_instr(P(tokenize(ln)), em))
            j += 1
        parsed.append((lab, ins))
    # typed-new peephole: find bitcast users of operator new results
    news = {}
    ALLOCS = ('@_Znwm', '@_Znam', '@malloc', '@realloc', '@calloc')
    for (lab, ins) in parsed:
        for I in ins:
            if I['op'] in ('call', 'invoke') and isinstance(I['callee'], VGlobal) and I['callee'].name in ALLOCS and I['res']:
                news[I['res']] = I
            if I['op'] == 'bitcast' and isinstance(I['a'], VLocal) and I['a'].name in news:
                N = news[I['a'].name]
                dt = em.resolve(I['rtype'])
                if isinstance(dt, TPtr) and N.get('newtype') is None and N.get('elemtype') is None:
                    el = em.resolve(dt.to)
                    szarg = N['args'][0][1] if N['callee'].name != '@realloc' else N['args'][1][1]
                    try:
                        if isinstance(el, TStruct) and isinstance(szarg, VInt) and em.size_align(dt.to)[0] == szarg.v \
                           and N['callee'].name in ('@_Znwm', '@malloc'):
                            N['newtype'] = dt.to
                        elif isinstance(el, (TInt, TFloat, TPtr, TStruct)) and not (isinstance(el, TInt) and el.n == 8):
                            em.size_align(dt.to)
                            N['elemtype'] = dt.to
                    except NotImplementedError:
                        pass
    # typed-byte-GEP peephole
    bgeps = {}
    for (lab, ins) in parsed:
        for I in ins:
            if I['op'] == 'getelementptr' and I['res'] and len(I['idxs']) == 1 and not isinstance(I['idxs'][0][1], VInt):
                bt = em.resolve(I['bt'])
                if isinstance(bt, TInt) and bt.n == 8:
                    bgeps[I['res']] = I
            if I['op'] == 'bitcast' and isinstance(I['a'], VLocal) and I['a'].name in bgeps:
                G = bgeps[I['a'].name]
                dt = em.resolve(I['rtype'])
                if isinstance(dt, TPtr):
                    try:
                        sz = em.size_align(dt.to)[0]
                    except NotImplementedError:
                        sz = 1
                    if sz > 1 and G.get('typed') is None:
                        G['typed'] = (dt.to, sz)
    # collect result types
    for (lab, ins) in parsed:
        for I in ins:
            if I.get('res') is not None:
                fc.declare(I['res'], I['rtype'])
                fc.defs[I['res']] = I
    for (t, nm) in zip([p[0] for p in f.params], pnames):
        pass
    # phi handling: collect per-edge copies
    phis = {}   # block label -> list of (res, type, [(val, pred)])
    for (lab, ins) in parsed:
        for I in ins:
            if I['op'] == 'phi':
                phis.setdefault(lab, []).append(I)
    fc.order = {lab: k for k, (lab, ins) in enumerate(parsed)}
    body = []
    def edge(src, dst):
        """statements to perform when going src -> dst"""
        ps = phis.get(dst, [])
        if not ps: return 'goto %s;' % blabel(dst)
        stm = []
        # two-phase copy
        for I in ps:
            for (v, pred) in I['incoming']:
                if pred == src:
                    stm.append('%s_phi = %s;' % (fc.lname(I['res']), em.val(I['rtype'], v, fc)))
                    break
            else:
                raise KeyError("phi %s has no incoming for %s" % (I['res'], src))
        return ' '.join(stm) + ' goto %s;' % blabel(dst)
    def blabel(l):
        return 'L_' + cid(l)
    for (lab, ins) in parsed:
        body.append('%s: ;' % blabel(lab))
        for I in phis.get(lab, []):
            body.append('  %s = %s_phi;' % (fc.lname(I['res']), fc.lname(I['res'])))
        for I in ins:
            if I['op'] == 'phi': continue
            body.extend('  ' + x for x in emit_instr(em, fc, f, I, lab, edge))
    # assemble
    decls = []
    for nm, (cn, t) in fc.locals.items():
        rt = em.resolve(t)
        if isinstance(rt, TVoid): continue
        em.need_complete(t)
        decls.append('  %s %s;' % (em.ctype(t), cn))
    for (lab, ins) in parsed:
        for I in ins:
            if I['op'] == 'phi':
                decls.append('  %s %s_phi;' % (em.ctype(I['rtype']), fc.lname(I['res'])))
    decls.extend('  ' + d for d in fc.extra_decls)
    params = ', '.join('%s %s' % (em.ctype(t), fc.lname(nm)) for (t, nm) in zip([p[0] for p in f.params], pnames))
    if f.va: params += ', ...' if params else '...'
    if not params: params = 'void'
    head = '%s %s(%s)' % (em.ctype(f.ret), em.fname(f.name), params)
    return head + ' {\n' + '\n'.join(decls) + '\n' + '\n'.join(body) + '\n}\n'

FLAGS = {'nsw', 'nuw', 'exact', 'inbounds', 'volatile', 'atomic', 'tail', 'musttail', 'notail', 'fast',
         'nnan', 'ninf', 'nsz', 'arcp', 'contract', 'afn', 'reassoc', 'unordered', 'monotonic', 'acquire',
         'release', 'acq_rel', 'seq_cst', 'weak'}

def strip_meta(p):
    # drop trailing ", !tbaa !5" etc and ", align N"
    pass

def parse_instr(p, em):
    I = {}
    res = None
    if p.peek()[0] in ('loc', 'lq') and p.peek(1)[1] == '=':
        res = p.next()[1]; p.next()
    I['res'] = res
    flags = set()
    while p.peek()[1] in ('tail', 'musttail', 'notail'):
        p.next()
    op = p.next()[1]
    I['op'] = op
    def flagsx():
        while p.peek()[0] == 'id' and p.peek()[1] in FLAGS:
            flags.add(p.next()[1])
    flagsx()
    I['flags'] = flags
    if op in CE_BIN or op in ('fadd', 'fsub', 'fmul', 'fdiv', 'frem'):
        t = parse_type(p); a = parse_value(p, t); p.expect(','); b = parse_value(p, t)
        I.update(rtype=t, a=a, b=b)
    elif op == 'fneg':
        t = parse_type(p); a = parse_value(p, t)
        I.update(rtype=t, a=a)
    elif op in ('icmp', 'fcmp'):
        flagsx()
        pred = p.next()[1]
        t = parse_type(p); a = parse_value(p, t); p.expect(','); b = parse_value(p, t)
        I.update(rtype=TInt(1), pred=pred, t=t, a=a, b=b)
    elif op in CE_CASTS:
        t = parse_type(p); a = parse_value(p, t); p.expect('to'); tt = parse_type(p)
        I.update(rtype=tt, t=t, a=a)
    elif op == 'load':
        t = parse_type(p); p.expect(',')
        pt = parse_type(p); pv = parse_value(p, pt)
        I.update(rtype=t, pt=pt, pv=pv)
    elif op == 'store':
        t = parse_type(p); v = parse_value(p, t); p.expect(',')
        pt = parse_type(p); pv = parse_value(p, pt)
        I.update(rtype=None, t=t, v=v, pt=pt, pv=pv)
    elif op == 'alloca':
        t = parse_type(p)
        cnt = None
        if p.accept(','):
            if p.peek()[1] == 'align':
                pass
            else:
                ct = parse_type(p); cnt = (ct, parse_value(p, ct))
        I.update(rtype=TPtr(t), t=t, cnt=cnt)
    elif op == 'getelementptr':
        bt = parse_type(p); p.expect(',')
        pt = parse_type(p); pv = parse_value(p, pt)
        idxs = []
        while p.accept(','):
            if p.peek()[0] == 'meta': break
            it = parse_type(p); iv = parse_value(p, it)
            idxs.append((it, iv))
        rt = em.gep_type(bt, idxs[1:])
        I.update(rtype=TPtr(rt), bt=bt, pt=pt, pv=pv, idxs=idxs)
    elif op == 'phi':
        t = parse_type(p)
        inc = []
        while True:
            p.expect('[')
            v = parse_value(p, t); p.expect(',')
            lab = p.next()[1]
            p.expect(']')
            inc.append((v, lab))
            if not p.accept(','): break
        I.update(rtype=t, incoming=inc)
    elif op == 'select':
        ct = parse_type(p); cv = parse_value(p, ct); p.expect(',')
        t = parse_type(p); a = parse_value(p, t); p.expect(',')
        t2 = parse_type(p); b = parse_value(p, t2)
        I.update(rtype=t, c=cv, a=a, b=b)
    elif op in ('call', 'invoke'):
        flagsx()
        while p.peek()[1] in ('fastcc', 'ccc', 'coldcc'): p.next()
        retattrs = []
        skip_param_attrs(p, retattrs)
        # return type or full function type
        rt = parse_type(p)
        fty = None
        if isinstance(rt, TFunc):
            fty = rt; rt = fty.ret
        callee = parse_value(p)
        p.expect('(')
        args = []
        if not p.accept(')'):
            while True:
                at = parse_type(p)
                attrs = []
                skip_param_attrs(p, attrs)
                av = parse_value(p, at)
                args.append((at, av, attrs))
                if p.accept(')'): break
                p.expect(',')
        attrtoks = set()
        while not p.eof():
            k, v = p.peek()
            if v == 'to' or k == 'meta' or v == ',': break
            p.next()
            if k == 'attr': attrtoks |= em.m.attrgroups.get(v, set())
            elif k == 'id': attrtoks.add(v)
            elif v == '[':
                # operand bundle
                while p.next()[1] != ']': pass
        I.update(rtype=rt, fty=fty, callee=callee, args=args, cattrs=attrtoks)
        if op == 'invoke':
            p.expect('to'); p.expect('label'); I['normal'] = p.next()[1]
            p.expect('unwind'); p.expect('label'); I['unwind'] = p.next()[1]
    elif op == 'br':
        if p.accept('label'):
            I.update(rtype=None, dest=p.next()[1])
        else:
            ct = parse_type(p); cv = parse_value(p, ct); p.expect(','); p.expect('label')
            a = p.next()[1]; p.expect(','); p.expect('label'); b = p.next()[1]
            I.update(rtype=None, cond=cv, t=a, f=b)
    elif op == 'switch':
        t = parse_type(p); v = parse_value(p, t); p.expect(','); p.expect('label'); d = p.next()[1]
        p.expect('[')
        cases = []
        while not p.accept(']'):
            ct = parse_type(p); cv = parse_value(p, ct); p.expect(','); p.expect('label')
            cases.append((cv, p.next()[1]))
        I.update(rtype=None, t=t, v=v, default=d, cases=cases)
    elif op == 'ret':
        t = parse_type(p)
        v = None
        if not isinstance(t, TVoid): v = parse_value(p, t)
        I.update(rtype=None, t=t, v=v)
    elif op == 'unreachable':
        I.update(rtype=None)
    elif op == 'resume':
        t = parse_type(p); v = parse_value(p, t)
        I.update(rtype=None, t=t, v=v)
    elif op == 'landingpad':
        t = parse_type(p)
        clauses = []
        cleanup = False
        while not p.eof():
            k, v = p.peek()
            if v == 'cleanup': p.next(); cleanup = True
            elif v == 'catch':
                p.next(); ct = parse_type(p); cv = parse_value(p, ct); clauses.append((ct, cv))
            elif v == 'filter':
                p.next(); ct = parse_type(p); cv = parse_value(p, ct)
            else: break
        I.update(rtype=t, clauses=clauses, cleanup=cleanup)
    elif op == 'extractvalue':
        t = parse_type(p); v = parse_value(p, t)
        idx = []
        while p.accept(','):
            if p.peek()[0] == 'meta': break
            idx.append(int(p.next()[1]))
        rt = t
        for i in idx:
            r = em.resolve(rt)
            rt = r.fields[i] if isinstance(r, TStruct) else r.el
        I.update(rtype=rt, t=t, v=v, idx=idx)
    elif op == 'insertvalue':
        t = parse_type(p); v = parse_value(p, t); p.expect(',')
        et = parse_type(p); ev = parse_value(p, et)
        idx = []
        while p.accept(','):
            if p.peek()[0] == 'meta': break
            idx.append(int(p.next()[1]))
        I.update(rtype=t, t=t, v=v, et=et, ev=ev, idx=idx)
    elif op == 'atomicrmw':
        flagsx()
        rop = p.next()[1]
        pt = parse_type(p); pv = parse_value(p, pt); p.expect(',')
        t = parse_type(p); v = parse_value(p, t)
        I.update(rtype=t, rop=rop, pt=pt, pv=pv, v=v)
    elif op == 'cmpxchg':
        flagsx()
        pt = parse_type(p); pv = parse_value(p, pt); p.expect(',')
        t = parse_type(p); c = parse_value(p, t); p.expect(',')
        t2 = parse_type(p); n = parse_value(p, t2)
        I.update(rtype=TStruct([t, TInt(1)], False), pt=pt, pv=pv, t=t, c=c, n=n)
    elif op == 'fence':
        I.update(rtype=None)
    elif op == 'freeze':
        t = parse_type(p); a = parse_value(p, t)
        I.update(rtype=t, a=a)
    else:
        raise NotImplementedError("instruction " + op)
    return I

def parse_type_noparen(p):
    """parse a type but do not treat a following '(' as a function type when it
    is the argument list of a call: we detect by lookahead: function *type* in a call
    is always followed by '*' after ')'."""
    # find matching: parse base + pointers
    k, v = p.peek()
    save = p.i
    # use parse_type on a limited slice: scan until we hit callee token at depth 0
    depth = 0; j = p.i
    while True:
        tk, tv = p.t[j]
        if depth == 0 and tk in ('glob', 'gq', 'loc', 'lq') and j > p.i:
            # could be a named type %"class.X" - those are followed by '*' or '(' ... ambiguous.
            # a callee is followed by '(' ; a named type as return type is followed by '*', or callee.
            nxt = p.t[j+1][1] if j + 1 < len(p.t) else ''
            if nxt == '(' :
                # is it callee or is it named-struct return type followed by (params)*? check the token after matching paren
                d2 = 0; q = j + 1
                while True:
                    if p.t[q][1] == '(': d2 += 1
                    if p.t[q][1] == ')':
                        d2 -= 1
                        if d2 == 0: break
                    q += 1
                if q + 1 < len(p.t) and p.t[q+1][1] == '*':
                    j = q + 1; continue   # part of type
                break
        if depth == 0 and tk in ('id',) and tv in ('bitcast', 'inttoptr', 'getelementptr', 'asm') and j > p.i:
            break
        if tv in '([{<' and tk == 'p': depth += 1
        if tv in ')]}>' and tk == 'p': depth -= 1
        j += 1
    sub = P(p.t[p.i:j])
    t = parse_type(sub)
    assert sub.eof(), ("leftover in call type", p.t[p.i:j])
    p.i = j
    return t

def emit_instr(em, fc, f, I, lab, edge):
    op = I['op']
    out = []
    V = lambda t, v: em.val(t, v, fc)
    def setres(expr):
        out.append('%s = %s;' % (fc.lname(I['res']), expr))
    if op == 'sub' and isinstance(I['a'], VLocal) and isinstance(I['b'], VLocal) \
            and fc.defs.get(I['a'].name, {}).get('op') == 'ptrtoint' and fc.defs.get(I['b'].name, {}).get('op') == 'ptrtoint':
        # difference of two pointers (libstdc++ containers): keep it a C pointer subtraction so
        # that CBMC folds it to the offset difference inside one object
        A = fc.defs[I['a'].name]; B = fc.defs[I['b'].name]
        pa = V(A['t'], A['a']); pb = V(B['t'], B['a'])
        setres('((%s)(((void*)%s == (void*)%s) ? 0 : ((uint8_t*)%s - (uint8_t*)%s)))' % (em.ctype(I['rtype']), pa, pb, pa, pb))
    elif op in CE_BIN:
        setres(em.binop(op, I['rtype'], V(I['rtype'], I['a']), V(I['rtype'], I['b']), I['flags']))
    elif op in ('fadd', 'fsub', 'fmul', 'fdiv'):
        o = {'fadd':'+','fsub':'-','fmul':'*','fdiv':'/'}[op]
        setres('(%s %s %s)' % (V(I['rtype'], I['a']), o, V(I['rtype'], I['b'])))
    elif op == 'frem':
        rt = em.resolve(I['rtype'])
        setres('%s(%s, %s)' % ('fmodf' if rt.k == 'float' else 'fmod', V(I['rtype'], I['a']), V(I['rtype'], I['b'])))
    elif op == 'fneg':
        setres('(-%s)' % V(I['rtype'], I['a']))
    elif op == 'icmp':
        setres(em.icmp(I['pred'], I['t'], V(I['t'], I['a']), V(I['t'], I['b'])))
    elif op == 'fcmp':
        a = V(I['t'], I['a']); b = V(I['t'], I['b'])
        pr = I['pred']
        base = {'eq':'==','ne':'!=','lt':'<','le':'<=','gt':'>','ge':'>='}
        if pr == 'true': setres('1')
        elif pr == 'false': setres('0')
        elif pr == 'ord': setres('(%s == %s && %s == %s)' % (a, a, b, b))
        elif pr == 'uno': setres('(%s != %s || %s != %s)' % (a, a, b, b))
        elif pr[0] == 'o':
            if pr == 'one': setres('(%s == %s && %s == %s && %s != %s)' % (a, a, b, b, a, b))
            else: setres('(%s %s %s)' % (a, base[pr[1:]], b))
        else:
            if pr == 'une': setres('(%s != %s)' % (a, b))
            else: setres('(!(%s == %s && %s == %s) || (%s %s %s))' % (a, a, b, b, a, base[pr[1:]], b))
    elif op in CE_CASTS:
        a = V(I['t'], I['a'])
        st = em.resolve(I['t']); dt = em.resolve(I['rtype'])
        cdt = em.ctype(I['rtype'])
        if op == 'bitcast':
            if isinstance(st, TPtr) and isinstance(dt, TPtr):
                setres('((%s)%s)' % (cdt, a))
            else:
                # scalar pun
                out.append('{ union { %s s; %s d; } u_; u_.s = %s; %s = u_.d; }' % (em.ctype(I['t']), cdt, a, fc.lname(I['res'])))
        elif op == 'inttoptr':
            setres('((%s)(uintptr_t)%s)' % (cdt, a))
        elif op == 'ptrtoint':
            setres('((%s)(uintptr_t)%s)' % (cdt, a))
        elif op == 'trunc':
            if dt.n == 1: setres('((_Bool)(%s & 1))' % a)
            else: setres('((%s)%s)' % (cdt, a))
        elif op == 'zext':
            setres('((%s)%s)' % (cdt, a))
        elif op == 'sext':
            if st.n == 1: setres('((%s)(-(%s)%s))' % (cdt, em.sint(dt.n), a))
            else: setres('((%s)(%s)(%s)%s)' % (cdt, em.sint(dt.n), em.sint(st.n), a))
        elif op in ('fpext', 'fptrunc'):
            setres('((%s)%s)' % (cdt, a))
        elif op == 'sitofp':
            setres('((%s)(%s)%s)' % (cdt, em.sint(st.n) if st.n > 1 else 'int', a))
        elif op == 'uitofp':
            setres('((%s)%s)' % (cdt, a))
        elif op == 'fptosi':
            setres('((%s)(%s)%s)' % (cdt, em.sint(dt.n), a))
        elif op == 'fptoui':
            setres('((%s)%s)' % (cdt, a))
        else:
            raise NotImplementedError(op)
    elif op == 'load':
        em.need_complete(I['rtype'])
        setres('(*%s)' % V(I['pt'], I['pv']))
    elif op == 'store':
        em.need_complete(I['t'])
        out.append('(*%s) = %s;' % (V(I['pt'], I['pv']), V(I['t'], I['v'])))
    elif op == 'alloca':
        em.need_complete(I['t'])
        nm = fc.lname(I['res']) + '_mem'
        if I['cnt'] is not None and not (isinstance(I['cnt'][1], VInt) and I['cnt'][1].v == 1):
            if isinstance(I['cnt'][1], VInt):
                fc.extra_decls.append('%s %s[%d];' % (em.ctype(I['t']), nm, I['cnt'][1].v))
                setres('&%s[0]' % nm)
            else:
                setres('(%s*)__builtin_alloca(sizeof(%s) * %s)' % (em.ctype(I['t']), em.ctype(I['t']), V(*I['cnt'])))
        else:
            fc.extra_decls.append('%s %s;' % (em.ctype(I['t']), nm))
            setres('&%s' % nm)
    elif op == 'getelementptr' and I.get('typed') is not None:
        (tt, sz) = I['typed']
        (it, iv) = I['idxs'][0]
        off = V(it, iv)
        st = em.sint(em.resolve(it).n)
        out.append('__ll2c_check_aligned((%s)%s %% %d == 0);' % (st, off, sz))
        setres('((uint8_t*)(((%s*)%s) + ((%s)%s / %d)))' % (em.ctype(tt), V(I['pt'], I['pv']), st, off, sz))
    elif op == 'getelementptr':
        setres(em.gep_expr(I['bt'], V(I['pt'], I['pv']), [(it, V(it, iv), iv) for (it, iv) in I['idxs']]))
    elif op == 'select':
        setres('(%s ? %s : %s)' % (V(TInt(1), I['c']), V(I['rtype'], I['a']), V(I['rtype'], I['b'])))
    elif op == 'freeze':
        setres(V(I['rtype'], I['a']))
    elif op in ('call', 'invoke'):
        out.extend(emit_call(em, fc, f, I, lab, edge))
    elif op == 'br':
        if 'dest' in I:
            out.append(edge(lab, I['dest']))
        else:
            # CBMC resets a loop's unwinding counter only when a *conditional* backward goto is not
            # taken; make the innermost backward edge the conditional one so nested loops do not
            # accumulate their counts.
            ot, of, oc = fc.order.get(I['t'], 1 << 30), fc.order.get(I['f'], 1 << 30), fc.order.get(lab, 0)
            t_back, f_back = ot <= oc, of <= oc
            c = V(TInt(1), I['cond'])
            def split(e):
                k = e.rfind('goto ')
                return e[:k], e[k:]
            if f_back and (not t_back or of > ot):
                first, neg, second = I['f'], '!', I['t']
            else:
                first, neg, second = I['t'], '', I['f']
            cp, gt = split(edge(lab, first))
            if (ot <= oc or of <= oc) and cp.strip():
                # phi copies of the conditional backward edge are hoisted before the test (the phi
                # variables are only read at the head of their own block, every edge into which
                # assigns them), so that the goto itself stays a conditional backward goto
                out.append('%s if (%s%s) %s %s' % (cp, neg, c, gt, edge(lab, second)))
            else:
                out.append('if (%s%s) { %s } %s' % (neg, c, edge(lab, first), edge(lab, second)))
    elif op == 'switch':
        v = V(I['t'], I['v'])
        out.append('switch (%s) {' % v)
        for (cv, l) in I['cases']:
            out.append('  case %s: { %s }' % (V(I['t'], cv), edge(lab, l)))
        out.append('  default: { %s }' % edge(lab, I['default']))
        out.append('}')
    elif op == 'ret':
        if I['v'] is None: out.append('return;')
        else:
            em.need_complete(I['t'])
            out.append('return %s;' % V(I['t'], I['v']))
    elif op == 'unreachable':
        out.append('__ll2c_unreachable(); ' + zero_ret(em, f))
    elif op == 'resume':
        out.append('__ll2c_exc_pending = 1; ' + zero_ret(em, f))
    elif op == 'landingpad':
        em.need_complete(I['rtype'])
        res = fc.lname(I['res'])
        out.append('%s.f0 = (uint8_t*)__ll2c_exc_obj; %s.f1 = (uint32_t)__ll2c_selector(__ll2c_exc_tinfo); __ll2c_exc_pending = 0;' % (res, res))
    elif op == 'extractvalue':
        e = V(I['t'], I['v'])
        rt = I['t']
        for i in I['idx']:
            r = em.resolve(rt)
            if isinstance(r, TStruct): e += '.f%d' % i; rt = r.fields[i]
            else: e += '[%d]' % i; rt = r.el
        setres(e)
    elif op == 'insertvalue':
        res = fc.lname(I['res'])
        if not isinstance(I['v'], VUndef):
            out.append('%s = %s;' % (res, V(I['t'], I['v'])))
        e = res
        rt = I['t']
        for i in I['idx']:
            r = em.resolve(rt)
            if isinstance(r, TStruct): e += '.f%d' % i; rt = r.fields[i]
            else: e += '[%d]' % i; rt = r.el
        out.append('%s = %s;' % (e, V(I['et'], I['ev'])))
    elif op == 'atomicrmw':
        pv = V(I['pt'], I['pv']); v = V(I['rtype'], I['v'])
        setres('(*%s)' % pv)
        rop = I['rop']
        new = {'add': em.binop('add', I['rtype'], fc.lname(I['res']), v, set()),
               'sub': em.binop('sub', I['rtype'], fc.lname(I['res']), v, set()),
               'xchg': v,
               'and': em.binop('and', I['rtype'], fc.lname(I['res']), v, set()),
               'or': em.binop('or', I['rtype'], fc.lname(I['res']), v, set()),
               'xor': em.binop('xor', I['rtype'], fc.lname(I['res']), v, set())}[rop]
        out.append('(*%s) = %s;' % (pv, new))
    elif op == 'cmpxchg':
        em.need_complete(I['rtype'])
        pv = V(I['pt'], I['pv']); res = fc.lname(I['res'])
        out.append('%s.f0 = (*%s); %s.f1 = (%s.f0 == %s); if (%s.f1) (*%s) = %s;' % (
            res, pv, res, res, V(I['t'], I['c']), res, pv, V(I['t'], I['n'])))
    elif op == 'fence':
        pass
    else:
        raise NotImplementedError(op)
    return out

def ptr_elem_type(em, fc, v):
    """element type behind an i8* operand of a mem intrinsic, if it is a bitcast of a typed pointer"""
    src = None
    if isinstance(v, VLocal):
        D = fc.defs.get(v.name)
        if D is not None and D['op'] == 'bitcast':
            src = D['t']
    elif isinstance(v, VCE) and v.op == 'bitcast':
        src = v.args[0][0]
    if src is None: return None
    st = em.resolve(src)
    if not isinstance(st, TPtr): return None
    to = st.to
    el = em.resolve(to)
    while isinstance(el, TArr):
        to = el.el; el = em.resolve(to)
    if isinstance(el, TInt) and el.n == 8: return None
    if isinstance(el, (TInt, TFloat, TPtr, TStruct)):
        try:
            em.size_align(to)
        except NotImplementedError:
            return None
        return to
    return None

def emit_call(em, fc, f, I, lab, edge):
    out = []
    V = lambda t, v: em.val(t, v, fc)
    callee = I['callee']
    rt = I['rtype']
    args = I['args']
    res = fc.lname(I['res']) if I['res'] else None
    name = em.canon(callee.name) if isinstance(callee, VGlobal) else None
    def done(after_call_unwind=True):
        if I['op'] == 'invoke':
            out.append(edge(lab, I['normal']))
    # ---- intrinsics
    if name and name.startswith('@llvm.'):
        nm = name[6:]
        A = [V(t, v) for (t, v, a) in args]
        if nm.startswith('lifetime.') or nm.startswith('dbg.') or nm.startswith('experimental.noalias') or nm.startswith('invariant.') or nm == 'assume' or nm.startswith('prefetch'):
            pass
        elif nm.startswith('memcpy.') or nm.startswith('memmove.'):
            mv = nm.startswith('memmove')
            td = ptr_elem_type(em, fc, args[0][1]); ts = ptr_elem_type(em, fc, args[1][1])
            t = td if (td is not None and ts is not None and td.key() == ts.key()) else None
            if t is not None:
                em.need_complete(t)
                ct = em.ctype(t); sz = em.size_align(t)[0]
                nv = args[2][1]
                if isinstance(nv, VInt) and nv.v % sz == 0 and nv.v // sz <= 8 and not mv:
                    for k in range(nv.v // sz):
                        out.append('((%s*)%s)[%d] = ((%s*)%s)[%d];' % (ct, A[0], k, ct, A[1], k))
                elif isinstance(nv, VInt):
                    if nv.v: out.append('%s((void*)%s, (void*)%s, %dULL);' % ('memmove' if mv else 'memcpy', A[0], A[1], nv.v))
                else:
                    hn = em.mem_helper(ct)
                    out.append('__ll2c_%s_%s((%s*)%s, (%s*)%s, (uint64_t)%s);' % ('memmove' if mv else 'memcpy', hn, ct, A[0], ct, A[1], A[2]))
            elif isinstance(args[2][1], VInt):
                if args[2][1].v: out.append('%s((void*)%s, (void*)%s, %dULL);' % ('memmove' if mv else 'memcpy', A[0], A[1], args[2][1].v))
            else:
                fnm = '__ll2c_memmove' if mv else '__ll2c_memcpy'
                out.append('%s((void*)%s, (void*)%s, (uint64_t)%s);' % (fnm, A[0], A[1], A[2]))
        elif nm.startswith('memset.'):
            td = ptr_elem_type(em, fc, args[0][1])
            rt_ = em.resolve(td) if td is not None else None
            if rt_ is not None and isinstance(rt_, (TInt, TPtr)) and isinstance(args[1][1], VInt) and args[1][1].v == 0:
                ct = em.ctype(td); sz = em.size_align(td)[0]
                nv = args[2][1]
                if isinstance(nv, VInt) and nv.v % sz == 0 and nv.v // sz <= 32:
                    for k in range(nv.v // sz):
                        out.append('((%s*)%s)[%d] = 0;' % (ct, A[0], k))
                elif isinstance(nv, VInt):
                    out.append('memset((void*)%s, 0, %dULL);' % (A[0], nv.v))
                else:
                    hn = em.mem_helper(ct, zero=True)
                    out.append('__ll2c_memzero_%s((%s*)%s, (uint64_t)%s);' % (hn, ct, A[0], A[2]))
            elif isinstance(args[2][1], VInt):
                if args[2][1].v: out.append('memset((void*)%s, %s, %dULL);' % (A[0], A[1], args[2][1].v))
            else:
                out.append('__ll2c_memset((void*)%s, %s, (uint64_t)%s);' % (A[0], A[1], A[2]))
        elif nm.startswith('fshl.') or nm.startswith('fshr.'):
            t = em.resolve(args[0][0]); n = t.n; ct = em.ctype(t)
            big = 'uint64_t' if n <= 32 else 'unsigned __int128'
            sh = '(%s %% %d)' % (A[2], n)
            if nm.startswith('fshl'):
                out.append('%s = (%s)((((%s)%s << %d | (%s)%s) << %s) >> %d);' % (res, ct, big, A[0], n, big, A[1], sh, n))
            else:
                out.append('%s = (%s)((((%s)%s << %d | (%s)%s) >> %s));' % (res, ct, big, A[0], n, big, A[1], sh))
        elif re.match(r'(u|s)(max|min)\.', nm):
            t = em.resolve(args[0][0])
            sg = nm[0] == 's'
            cast = ('(%s)' % em.sint(t.n)) if sg else ''
            o = '>' if nm[1:4] == 'max' else '<'
            out.append('%s = ((%s%s %s %s%s) ? %s : %s);' % (res, cast, A[0], o, cast, A[1], A[0], A[1]))
        elif nm.startswith('abs.'):
            t = em.resolve(args[0][0]); st = em.sint(t.n)
            out.append('%s = (((%s)%s < 0) ? (%s)(0 - %s) : %s);' % (res, st, A[0], em.ctype(t), A[0], A[0]))
        elif re.match(r'(u|s)(add|sub|mul)\.with\.overflow\.', nm):
            t = em.resolve(args[0][0]); n = t.n
            em.need_complete(rt)
            sg = nm[0] == 's'; o = nm[1:4]
            bi = {'add': '__builtin_add_overflow', 'sub': '__builtin_sub_overflow', 'mul': '__builtin_mul_overflow'}[o]
            ty = em.sint(n) if sg else em.ctype(t)
            tmp = fc.tmp(ty)
            out.append('%s.f1 = %s((%s)%s, (%s)%s, &%s); %s.f0 = (%s)%s;' % (res, bi, ty, A[0], ty, A[1], tmp, res, em.ctype(t), tmp))
        elif nm == 'trap':
            out.append('__ll2c_trap();')
        elif nm.startswith('expect.'):
            out.append('%s = %s;' % (res, A[0]))
        elif nm.startswith('fabs.'):
            out.append('%s = %s(%s);' % (res, 'fabsf' if nm.endswith('f32') else 'fabs', A[0]))
        elif nm.startswith('round.') or nm.startswith('floor.') or nm.startswith('ceil.') or nm.startswith('sqrt.') or nm.startswith('trunc.'):
            b = nm.split('.')[0]
            out.append('%s = %s%s(%s);' % (res, b, 'f' if nm.endswith('f32') else '', A[0]))
        elif nm.startswith('ctlz.') or nm.startswith('cttz.') or nm.startswith('ctpop.') or nm.startswith('bswap.'):
            t = em.resolve(args[0][0])
            out.append('%s = __ll2c_%s%d(%s);' % (res, nm.split('.')[0], t.n, A[0]))
        elif nm == 'eh.typeid.for':
            out.append('%s = (uint32_t)__ll2c_selector((void*)%s);' % (res, A[0]))
        elif nm in ('stacksave',):
            out.append('%s = 0;' % res)
        elif nm in ('stackrestore',):
            pass
        else:
            raise NotImplementedError("intrinsic " + nm)
        done()
        return out
    # ---- verification primitives inlined so that each call site is its own CBMC property
    if name == '@vp_assert':
        msg = 'vp_assert'
        mv = args[1][1]
        while isinstance(mv, VCE) and mv.op in ('getelementptr', 'bitcast'):
            mv = mv.args[0][1]
        if isinstance(mv, VGlobal):
            g = em.m.globals.get(em.canon(mv.name))
            if g is not None and isinstance(g.init, VCStr):
                msg = g.init.data.rstrip(b'\0').decode('latin1')
        msg = re.sub(r'[^ -~]', '?', msg).replace('\\', '/').replace('"', "'")
        out.append('VP_ASSERT(%s, "%s");' % (V(args[0][0], args[0][1]), msg))
        done(); return out
    if name and re.fullmatch(r'@vp_cover_\d+', name):
        out.append('VP_COVER(%s);' % name[len('@vp_cover_'):])
        done(); return out
    if name == '@vp_reach':
        out.append('VP_REACH();')
        done(); return out
    # ---- typed array allocation
    if name in ('@_Znwm', '@_Znam', '@malloc', '@realloc', '@calloc') and res and I.get('elemtype') is not None:
        et = I['elemtype']
        em.need_complete(et)
        ct = em.ctype(et)
        hn = em.alloc_helper(ct)
        A = [V(t, v) for (t, v, a) in args]
        if name == '@realloc':
            out.append('%s = (uint8_t*)__ll2c_realloc_%s((%s*)%s, %s);' % (res, hn, ct, A[0], A[1]))
        elif name == '@calloc':
            out.append('%s = (uint8_t*)__ll2c_calloc_%s(%s * %s);' % (res, hn, A[0], A[1]))
        else:
            out.append('%s = (uint8_t*)__ll2c_malloc_%s(%s);' % (res, hn, A[0]))
        if I['op'] == 'invoke': out.append(edge(lab, I['normal']))
        return out
    # ---- typed operator new
    if name in ('@_Znwm', '@malloc') and res and isinstance(args[0][1], VInt) and I.get('newtype') is not None:
        nt = I['newtype']
        em.need_complete(nt)
        out.append('%s = (uint8_t*)malloc(sizeof(%s)); __CPROVER_assume(%s != 0);' % (res, em.ctype(nt), res))
        em.static_asserts.add('_Static_assert(sizeof(%s) == %d, "layout %s");' % (em.ctype(nt), args[0][1].v, em.ctype(nt)))
        if I['op'] == 'invoke': out.append(edge(lab, I['normal']))
        return out
    # ---- general call
    if name:
        callee_f = em.m.funcs.get(name)
        if callee_f is None:
            raise KeyError("call to unknown function " + name)
        em.used_funcs.add(name)
        fexpr = em.fname(name)
        # if the call-site type differs from the definition (bitcast), cast
    else:
        callee_f = None
        # indirect
        if I['fty'] is not None:
            fty = I['fty']
        else:
            fty = TFunc(rt, [a[0] for a in args], False)
        if isinstance(callee, VCE) and callee.op == 'bitcast':
            # call through bitcast of a known function
            fexpr = '((%s*)%s)' % (em.ctype(fty), em.val(TPtr(fty), callee, fc))
        else:
            fexpr = '(*(%s*)%s)' % (em.ctype(fty), em.val(TPtr(fty), callee, fc))
    cargs = []
    for k, (t, v, attrs) in enumerate(args):
        e = V(t, v)
        byval = [a for a in attrs if isinstance(a, tuple) and a[0] == 'byval']
        if byval:
            bt = byval[0][1]
            em.need_complete(bt)
            tmp = fc.tmp(em.ctype(bt))
            out.append('%s = *%s;' % (tmp, e))
            e = '&%s' % tmp
        if name and cid(name) in LIBC:
            if isinstance(em.resolve(t), TPtr): e = '((void*)%s)' % e
        elif callee_f is not None and k < len(callee_f.params):
            # cast to declared param type if differs
            dt = callee_f.params[k][0]
            if dt.key() != t.key():
                e = '((%s)%s)' % (em.ctype(dt), e)
        cargs.append(e)
    call = '%s(%s)' % (fexpr, ', '.join(cargs))
    rrt = em.resolve(rt)
    if isinstance(rrt, TVoid) or res is None:
        out.append(call + ';')
    else:
        em.need_complete(rt)
        if name and cid(name) in LIBC:
            call = '((%s)%s)' % (em.ctype(rt), call)
        elif callee_f is not None and callee_f.ret.key() != rt.key():
            call = '((%s)%s)' % (em.ctype(rt), call)
        out.append('%s = %s;' % (res, call))
    nounw = callee_nounwind(em, callee, I['cattrs'])
    if I['op'] == 'invoke':
        out.append('if (__ll2c_exc_pending) { %s }' % edge(lab, I['unwind']))
        out.append(edge(lab, I['normal']))
    else:
        if not nounw and 'nounwind' not in f.attrs:
            out.append('if (__ll2c_exc_pending) { %s }' % zero_ret(em, f))
        elif not nounw:
            # caller is nounwind but callee may throw -> std::terminate semantics
            out.append('if (__ll2c_exc_pending) { __ll2c_terminate(); }')
    return out

# ----------------------------------------------------------------------------
# Driver
# ----------------------------------------------------------------------------
PRELUDE = r'''
#include <stdint.h>
#include <stddef.h>
#include <stdlib.h>
#include <string.h>
#include <stdio.h>
#include <math.h>
extern int __ll2c_exc_pending;
extern void* __ll2c_exc_obj;
extern void* __ll2c_exc_tinfo;
int __ll2c_selector(void* tinfo);
void __ll2c_unreachable(void);
void __ll2c_trap(void);
void __ll2c_terminate(void);
void __ll2c_memcpy(void*, void*, uint64_t);
void __ll2c_memmove(void*, void*, uint64_t);
void __ll2c_memset(void*, uint8_t, uint64_t);
void __ll2c_note_alloc(void*);
void __ll2c_cut_realloc(void);
void __ll2c_check_aligned(int ok);
#ifdef __LL2C_CONCRETE
#include "cprover_concrete.h"
#else
void *__CPROVER_allocate(__CPROVER_size_t size, __CPROVER_bool zero);
__CPROVER_size_t __ll2c_nondet_size(void);
#ifdef WITNESS
#define VP_ASSERT(c, m) ((void)(c))
#define VP_COVER(k) __CPROVER_assert(0, "COVER " #k)
#define VP_REACH() __CPROVER_assert(0, "REACH end of harness")
#else
#define VP_ASSERT(c, m) __CPROVER_assert(c, m)
#define VP_COVER(k) ((void)0)
#define VP_REACH() ((void)0)
#endif
#endif
#ifndef __LL2C_REALLOC_COPY_MAX
#define __LL2C_REALLOC_COPY_MAX 256
#endif
'''

ALLOC_HELPER = r"""
#ifdef __LL2C_CONCRETE
static @T@* __ll2c_malloc_@H@(uint64_t bytes) { return (@T@*) malloc(bytes ? bytes : 1); }
static @T@* __ll2c_calloc_@H@(uint64_t bytes) { return (@T@*) calloc(1, bytes ? bytes : 1); }
static @T@* __ll2c_realloc_@H@(@T@* old, uint64_t bytes) { return (@T@*) realloc(old, bytes ? bytes : 1); }
#else
static @T@* __ll2c_malloc_@H@(uint64_t bytes) {
  __CPROVER_size_t cnt = (bytes + sizeof(@T@) - 1) / sizeof(@T@);
  @T@* p = __CPROVER_allocate(cnt * sizeof(@T@), 0);
  __ll2c_note_alloc(p);
  return p;
}
static @T@* __ll2c_calloc_@H@(uint64_t bytes) {
  __CPROVER_size_t cnt = (bytes + sizeof(@T@) - 1) / sizeof(@T@);
  @T@* p = __CPROVER_allocate(cnt * sizeof(@T@), 1);
  __ll2c_note_alloc(p);
  return p;
}
static @T@* __ll2c_realloc_@H@(@T@* old, uint64_t bytes) {
#ifdef __LL2C_ARENA_@H@
  /* harness option: the first realloc(NULL, sizeof arena) is served from a static
     constant-size array; every other realloc of this element type is cut (assume false) */
  static @T@ arena[__LL2C_ARENA_@H@]; static int used = 0;
  if (old != 0 || used || bytes != sizeof(arena)) __ll2c_cut_realloc();
  used = 1;
  return arena;
#endif
  @T@* q = __ll2c_malloc_@H@(bytes);
  if (old != 0) {
    uint64_t ob = __CPROVER_OBJECT_SIZE(old);
    uint64_t m = ob < bytes ? ob : bytes;
    if (m > __LL2C_REALLOC_COPY_MAX) __ll2c_cut_realloc();
    for (uint64_t i = 0; i < m / sizeof(@T@); i++) q[i] = old[i];
    free(old);
  }
  return q;
}
#endif
"""

MEM_HELPER = r"""
/* element-wise copies: CBMC's built-in memcpy/memset models with a symbolic length were
   observed to be imprecise on typed arrays, so lengths are walked explicitly; the loops
   are bounded by the unwinding limit (unwinding assertions report a too-small bound) */
static void __ll2c_memcpy_@H@(@T@* d, @T@* s, uint64_t bytes) {
  __ll2c_check_aligned(bytes % sizeof(@T@) == 0);
  uint64_t n = bytes / sizeof(@T@);
  for (uint64_t i = 0; i < n; i++) d[i] = s[i];
}
static void __ll2c_memmove_@H@(@T@* d, @T@* s, uint64_t bytes) {
  __ll2c_check_aligned(bytes % sizeof(@T@) == 0);
  uint64_t n = bytes / sizeof(@T@);
  if ((uintptr_t)d <= (uintptr_t)s) { for (uint64_t i = 0; i < n; i++) d[i] = s[i]; }
  else { for (uint64_t i = n; i > 0; i--) d[i-1] = s[i-1]; }
}
"""
MEM_HELPER_ZERO = r"""
static void __ll2c_memzero_@H@(@T@* d, uint64_t bytes) {
  __ll2c_check_aligned(bytes % sizeof(@T@) == 0);
  uint64_t n = bytes / sizeof(@T@);
  for (uint64_t i = 0; i < n; i++) d[i] = 0;
}
"""

def main():
    import argparse
    ap = argparse.ArgumentParser()
    ap.add_argument('inp'); ap.add_argument('out')
    ap.add_argument('--roots', default='')
    ap.add_argument('--stub', default='', help='regex of function names (C ids) whose bodies are dropped (left external)')
    ap.add_argument('--rename', default='', help='a=b,c=d  rename C symbols')
    ap.add_argument('--cut', default='', help='regex of function names (C ids) whose bodies are replaced by assume(false): paths through them are outside the claim')
    a = ap.parse_args()
    text = open(a.inp).read()
    m = parse_module(text)
    for kv in a.rename.split(','):
        if kv:
            k, v = kv.split('='); RENAME[k] = v
    em = Emitter(m)
    em.used_globals = set(); em.used_funcs = set()
    stub_re = re.compile(a.stub) if a.stub else None
    cut_re = re.compile(a.cut) if a.cut else None
    cut_names = []
    roots = ['@' + r for r in a.roots.split(',') if r]
    if not roots:
        roots = [n for n, f in m.funcs.items() if f.lines is not None]
    # worklist over reachable functions
    done_f = {}
    done_g = {}
    work = list(roots)
    for (prio, fv) in m.ctors:
        if isinstance(fv, VGlobal): work.append(fv.name)
    errors = []
    gcode = {}
    while work or (em.used_globals - set(done_g)) or (em.used_funcs - set(done_f)):
        if not work:
            for g in sorted(em.used_globals - set(done_g)):
                G = m.globals[g]
                done_g[g] = True
                if hasattr(G, 'alias'): continue
                em.need_complete(G.type)
                ct = em.ctype(G.type)
                nm = 'G_' + cid(g)
                if G.init is None:
                    # external object of unknown extent (e.g. libstdc++ typeinfo vtables, indexed at +2): 8-element backing array
                    gcode[g] = '%s %s__ext[8];\n#define %s (%s__ext[0])' % (ct, nm, nm, nm)
                else:
                    try:
                        gcode[g] = (nm, ct, em.init(G.type, G.init))
                    except (NotImplementedError, KeyError) as e:
                        errors.append('global %s: %s' % (g, e))
                        gcode[g] = 'extern %s %s; /* init failed */' % (ct, nm)
            work.extend(sorted(em.used_funcs - set(done_f)))
            continue
        fn = work.pop()
        if fn in done_f: continue
        f = m.funcs.get(fn)
        if f is None:
            errors.append('missing function ' + fn); done_f[fn] = None; continue
        if f.lines is None or (stub_re and stub_re.search(cid(fn))):
            done_f[fn] = None
            continue
        if cut_re and cut_re.search(cid(fn)):
            ps = ', '.join('%s a%d' % (em.ctype(p[0]), k) for k, p in enumerate(f.params)) or 'void'
            done_f[fn] = '%s %s(%s) { __ll2c_cut_realloc(); %s }\n' % (em.ctype(f.ret), em.fname(fn), ps, zero_ret(em, f))
            cut_names.append(cid(fn))
            continue
        try:
            done_f[fn] = translate_function(em, f)
        except (NotImplementedError, KeyError, SyntaxError, AssertionError) as e:
            errors.append('function %s: %s: %s' % (fn, type(e).__name__, e))
            done_f[fn] = None
    # prototypes
    protos = []
    for fn in done_f:
        f = m.funcs.get(fn)
        if f is None: continue
        if fn.startswith('@llvm.'): continue
        if cid(fn) in LIBC: continue
        ps = ', '.join(em.ctype(p[0]) for p in f.params)
        if f.va: ps += ', ...' if ps else '...'
        if not ps: ps = 'void'
        protos.append('%s %s(%s);' % (em.ctype(f.ret), em.fname(fn), ps))
    em.flush_literals()
    with open(a.out, 'w') as o:
        o.write(PRELUDE)
        o.write('\n'.join(em.fwd) + '\n')
        o.write('\n'.join(em.tdef_code) + '\n')
        o.write('\n'.join(sorted(em.static_asserts)) + '\n')
        for hn, ct in em.alloc_helpers.items():
            o.write(ALLOC_HELPER.replace('@H@', hn).replace('@T@', ct))
        for hn, ct in getattr(em, 'mem_helpers', {}).items():
            o.write(MEM_HELPER.replace('@H@', hn).replace('@T@', ct))
            if hn in em.mem_zero: o.write(MEM_HELPER_ZERO.replace('@H@', hn).replace('@T@', ct))
        o.write('\n'.join(protos) + '\n')
        # globals: declarations first, then definitions
        for g, c in gcode.items():
            if isinstance(c, tuple):
                o.write('extern %s %s;\n' % (c[1], c[0]))
            else:
                o.write(c + '\n')
        for g, c in gcode.items():
            if isinstance(c, tuple):
                o.write('%s %s = %s;\n' % (c[1], c[0], c[2]))
        for fn, code in done_f.items():
            if code: o.write(code + '\n')
        # concrete build (translation validation): functions without a body (stubbed by --stub or
        # external) may still be referenced from vtables; give them inert definitions there
        RT_DEFINED = {'_Znwm', '_Znam', '_ZdlPv', '_ZdaPv', '_ZdlPvm', '__cxa_pure_virtual', '__cxa_atexit', '__cxa_allocate_exception',
                      '__cxa_free_exception', '__cxa_throw', '__cxa_begin_catch', '__cxa_end_catch', '__cxa_rethrow', '__cxa_guard_acquire',
                      '__cxa_guard_release', '__cxa_guard_abort', '_ZNSt8ios_base4InitC1Ev', '_ZNSt8ios_base4InitD1Ev', '__gxx_personality_v0'}
        o.write('#ifdef __LL2C_CONCRETE\n')
        for fn, c in done_f.items():
            if c is not None or fn.startswith('@llvm.'): continue
            f = m.funcs.get(fn)
            nm = em.fname(fn)
            if f is None or cid(fn) in LIBC or nm in RT_DEFINED or nm.startswith('vp_') or nm.startswith('__ll2c_'): continue
            ps = ', '.join('%s a%d' % (em.ctype(p[0]), k) for k, p in enumerate(f.params))
            if f.va: ps += ', ...' if ps else '...'
            if not ps: ps = 'void'
            o.write('%s %s(%s) { %s }\n' % (em.ctype(f.ret), nm, ps, zero_ret(em, f)))
        o.write('#endif\n')
        # ctors
        o.write('void __ll2c_run_ctors(void) {\n')
        for (prio, fv) in sorted(m.ctors, key=lambda x: x[0]):
            if isinstance(fv, VGlobal) and done_f.get(fv.name):
                o.write('  %s();\n' % em.fname(fv.name))
        o.write('}\n')
    open(a.out + '.funcs', 'w').write('\n'.join(cid(fn) for fn, c in done_f.items() if c))
    undefined = [fn for fn, c in done_f.items() if c is None and not fn.startswith('@llvm.')]
    sys.stderr.write('translated %d functions, %d globals; %d external/stubbed functions\n' % (
        sum(1 for c in done_f.values() if c), len(done_g), len(undefined)))
    for u in undefined: sys.stderr.write('  EXTERN %s\n' % cid(u))
    for c in cut_names: sys.stderr.write('  CUT %s\n' % c)
    for e in errors: sys.stderr.write('  ERROR %s\n' % e)
    return 1 if errors else 0

if __name__ == '__main__':
    sys.exit(main())
