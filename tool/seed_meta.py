#!/usr/bin/env python3
"""tool/seed_meta.py <name> <check args> <outcome> <detecting jobs> <note>: write seeded/<name>/meta.json from the agent's
meta, the confirmation record and the recorded check run."""
import json, sys, os
name, args, outcome, jobs, note = sys.argv[1:6]
d = os.path.join('/verif/seeded', name)
a = json.load(open(os.path.join(d, 'agent_meta.json'))); c = json.load(open(os.path.join(d, 'confirm.json')))
m = {'property': a.get('property'), 'name': name, 'summary': a.get('summary'), 'needs_to_manifest': a.get('needs'),
     'files_changed': a.get('files_changed'), 'origin': 'fresh sub-agent given only the property text and its own scratch worktree',
     'confirmed_by': c['ran'], 'tests_pass_with_change': c['tests_pass'], 'tests_fail_with_change': c['tests_fail'],
     'demo_exit_original': c['demo_original_exit'], 'demo_exit_changed': c['demo_changed_exit'],
     'check_run': 'git -C /repo apply seeded/%s/patch.diff; ./check %s; git -C /repo checkout -- .  (tool/run_seed.sh)' % (name, args),
     'check_outcome': outcome, 'detecting_jobs': jobs, 'note': note}
json.dump(m, open(os.path.join(d, 'meta.json'), 'w'), indent=1)
print('wrote', os.path.join(d, 'meta.json'))
