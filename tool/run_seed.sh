#!/bin/bash
# usage: tool/run_seed.sh <seed-name> <check args...>     e.g. tool/run_seed.sh C19_intmax C19 quick
# Applies seeded/<name>/patch.diff to /repo, runs ./check with the given arguments, and ALWAYS restores /repo.
# Must not run concurrently with other checks (they compile /repo's working tree).
N=$1; shift
cd /verif
git -C /repo diff --quiet || { echo "/repo has uncommitted changes; refusing"; exit 2; }
git -C /repo apply /verif/seeded/$N/patch.diff || { echo "patch does not apply"; exit 2; }
trap 'git -C /repo checkout -- . ' EXIT
./check "$@" > seeded/$N/check_output.txt 2>&1
RC=$?
grep -c "^VIOLATION" seeded/$N/check_output.txt | sed "s/^/seed $N: check $* exit=$RC violations=/"
exit $RC
