#!/bin/bash
# usage: tool/confirm_seed.sh <id> <agent-worktree> [name]
# Confirms a seeded change produced by a sub-agent: (1) the patch applies to /repo HEAD, (2) the library
# with the patch builds and the repository's test suite passes, (3) the demonstration fails with the
# patch and passes without it.  On success the artefacts are kept under /verif/seeded/<name>/ and the
# worktree is removed.  Runs entirely in scratch worktrees under /tmp; /repo itself is not touched.
set -u
ID=$1; W=$2; NAME=${3:-$ID}
OUT=/verif/seeded/$NAME; mkdir -p $OUT
[ -f $W/patch.diff ] || { echo "no patch.diff in $W"; exit 2; }
S=/tmp/confirm_$NAME; rm -rf $S
git -C /repo worktree add --detach $S HEAD >/dev/null 2>&1 || { echo "worktree add failed"; exit 2; }
rsync -a --ignore-existing --exclude .git /repo/ $S/
cd $S
# original build (objects may be stale relative to checkout timestamps: let make decide)
make -j8 >/dev/null 2>&1 || { echo "original build failed"; exit 2; }
cp src/.libs/libmeddly.a /tmp/confirm_${NAME}_orig.a
cp $W/seed_demo.cc $S/seed_demo.cc
g++ -std=c++17 -O1 -I$S -I$S/src -DHAVE_CONFIG_H -w $S/seed_demo.cc /tmp/confirm_${NAME}_orig.a -lgmp -o /tmp/confirm_${NAME}_demo_orig || { echo "demo does not build on original"; exit 2; }
/tmp/confirm_${NAME}_demo_orig > $OUT/demo_original.out 2>&1; RC_ORIG=$?
git apply --check $W/patch.diff || { echo "patch does not apply to HEAD"; exit 2; }
git apply $W/patch.diff
make -j8 >/dev/null 2>&1 || { echo "patched build failed"; exit 2; }
g++ -std=c++17 -O1 -I$S -I$S/src -DHAVE_CONFIG_H -w $S/seed_demo.cc $S/src/.libs/libmeddly.a -lgmp -o /tmp/confirm_${NAME}_demo_seed || { echo "demo does not build on patched"; exit 2; }
/tmp/confirm_${NAME}_demo_seed > $OUT/demo_changed.out 2>&1; RC_SEED=$?
make -k check -j8 > /tmp/confirm_${NAME}_check.log 2>&1
PASS=$(grep -c "^PASS" /tmp/confirm_${NAME}_check.log); FAIL=$(grep -c "^FAIL\|^ERROR" /tmp/confirm_${NAME}_check.log)
echo "seed $NAME: demo original rc=$RC_ORIG, demo changed rc=$RC_SEED, tests PASS=$PASS FAIL=$FAIL"
[ "$W" = "$OUT" ] || cp $W/patch.diff $W/seed_demo.cc $OUT/ 2>/dev/null
[ "$W" = "$OUT" ] || cp $W/meta.json $OUT/agent_meta.json 2>/dev/null
cat > $OUT/confirm.json <<EOJ
{"id": "$ID", "name": "$NAME", "demo_original_exit": $RC_ORIG, "demo_changed_exit": $RC_SEED, "tests_pass": $PASS, "tests_fail": $FAIL,
 "confirmed": $([ $RC_ORIG -eq 0 ] && [ $RC_SEED -ne 0 ] && [ $FAIL -eq 0 ] && [ $PASS -ge 121 ] && echo true || echo false),
 "ran": "tool/confirm_seed.sh: scratch worktree of /repo HEAD, make, make -k check -j8, seed_demo.cc against original and patched libmeddly.a"}
EOJ
cd /; git -C /repo worktree remove --force $S; rm -f /tmp/confirm_${NAME}_*
case "$W" in /tmp/*) git -C /repo worktree remove --force $W 2>/dev/null; rm -rf $W;; esac
git -C /repo worktree prune
