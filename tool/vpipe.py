#!/usr/bin/env python3
"""
vpipe: /repo sources + harness --clang++-14--> LLVM IR --llvm-link--> one module
       --ll2c--> C --goto-cc--> goto binary --cbmc--> verdict (+ witness twin,
       + translation validation, + replay of counterexamples on the g++ build).

Everything is regenerated from /repo's working tree on every run.
"""
import os, re, sys, json, time, shutil, subprocess, hashlib, resource, threading
from concurrent.futures import ThreadPoolExecutor

VERIF = os.path.dirname(os.path.dirname(os.path.abspath(__file__)))
REPO = os.environ.get('VERIF_REPO', '/repo')
SRC = os.path.join(REPO, 'src')
TOOL = os.path.join(VERIF, 'tool')
RT = os.path.join(TOOL, 'rt')
HARN = os.path.join(VERIF, 'harness')
GUARD = 'MEDDLY_VERIF'

CLANG = 'clang++-14'
IRFLAGS = ['-std=c++17', '-O1', '-fno-vectorize', '-fno-slp-vectorize', '-fno-unroll-loops',
           '-mllvm', '-simplifycfg-sink-common=false', '-mllvm', '-simplifycfg-hoist-common=false',
           '-I' + REPO, '-I' + SRC, '-I' + HARN, '-D' + GUARD, '-DHAVE_CONFIG_H', '-w', '-S', '-emit-llvm']
GXXFLAGS = ['-std=c++17', '-O1', '-I' + REPO, '-I' + SRC, '-I' + HARN, '-D' + GUARD, '-DHAVE_CONFIG_H', '-w']

DEFAULT_STUB = r'dumpInternal|reportStats|showInternal|reportMemoryUsage|^_ZNK?6MEDDLY6output|^_ZN6MEDDLY9FILE_output|^_ZN6MEDDLY14ostream_output'

CBMC_BASE = ['--unwinding-assertions', '--no-malloc-may-fail', '--verbosity', '8', '--trace']

def sh(cmd, cwd=None, timeout=None, env=None, mem_gb=None, capture=True):
    """run, return (rc, stdout+stderr, wall_s, maxrss_kb)"""
    t0 = time.time()
    def pre():
        if mem_gb:
            lim = int(mem_gb * (1 << 30))
            resource.setrlimit(resource.RLIMIT_AS, (lim, lim))
        os.setsid()
    try:
        p = subprocess.Popen(cmd, cwd=cwd, env=env, stdout=subprocess.PIPE, stderr=subprocess.STDOUT,
                             preexec_fn=pre, text=True, errors='replace')
    except FileNotFoundError as e:
        return (127, str(e), 0.0, 0)
    try:
        out, _ = p.communicate(timeout=timeout)
        rc = p.returncode
    except subprocess.TimeoutExpired:
        try: os.killpg(p.pid, 9)
        except Exception: pass
        out, _ = p.communicate()
        rc = -999
    ru = resource.getrusage(resource.RUSAGE_CHILDREN)
    return (rc, out, time.time() - t0, ru.ru_maxrss)

def all_units():
    """every .cc of libmeddly, read from /repo/src/Makefile.am on each run"""
    txt = open(os.path.join(SRC, 'Makefile.am')).read()
    m = re.search(r'libmeddly_la_SOURCES\s*=(.*?)\n\s*\n', txt, re.S)
    return sorted(set(re.findall(r'([A-Za-z0-9_/]+\.cc)', m.group(1))))

class ToolError(Exception):
    pass

def must(cmd, **kw):
    rc, out, w, _ = sh(cmd, **kw)
    if rc != 0:
        raise ToolError('command failed (%s): %s\n%s' % (rc, ' '.join(cmd), out[-4000:]))
    return out

_unit_lock = threading.Lock()
_unit_done = {}

def defs_key(defines):
    return hashlib.sha1(json.dumps(sorted(defines.items())).encode()).hexdigest()[:10]

def compile_unit_ll(bdir, unit, defines):
    """compile /repo/src/<unit> to IR once per (unit, defines) per run"""
    key = (unit, defs_key(defines))
    with _unit_lock:
        ev = _unit_done.get(key)
        if ev is None:
            ev = {'ev': threading.Event(), 'path': None, 'err': None, 'owner': True}
            _unit_done[key] = ev
            owner = True
        else:
            owner = False
    if not owner:
        ev['ev'].wait()
        if ev['err']: raise ToolError(ev['err'])
        return ev['path']
    try:
        udir = os.path.normpath(os.path.join(bdir, '..', '_units_' + key[1]))
        os.makedirs(udir, exist_ok=True)
        out = os.path.join(udir, unit.replace('/', '__') + '.ll')
        src = os.path.join(SRC, unit)
        cmd = [CLANG] + IRFLAGS + ['-D%s=%s' % kv for kv in sorted(defines.items())] + [src, '-o', out]
        must(cmd)
        ev['path'] = out
    except Exception as e:
        ev['err'] = str(e)
        raise
    finally:
        ev['ev'].set()
    return ev['path']

def parse_cbmc(out):
    r = {'props': {}, 'verdict': None, 'steps': 0, 'vccs': 0, 'vccs_rem': 0, 'symex_s': 0.0, 'solver_s': 0.0,
         'vars': 0, 'clauses': 0, 'traces': {}}
    m = re.findall(r'size of program expression: (\d+) steps', out)
    if m: r['steps'] = int(m[-1])
    m = re.search(r'Generated (\d+) VCC\(s\), (\d+) remaining', out)
    if m: r['vccs'] = int(m.group(1)); r['vccs_rem'] = int(m.group(2))
    for m in re.finditer(r'Runtime Symex: ([0-9.e+-]+)s', out): r['symex_s'] += float(m.group(1))
    for m in re.finditer(r'Runtime Solver: ([0-9.e+-]+)s', out): r['solver_s'] += float(m.group(1))
    for m in re.finditer(r'Runtime decision procedure: ([0-9.e+-]+)s', out): r['solver_s'] = max(r['solver_s'], float(m.group(1)))
    m = re.findall(r'(\d+) variables, (\d+) clauses', out)
    if m: r['vars'] = int(m[-1][0]); r['clauses'] = int(m[-1][1])
    for m in re.finditer(r'^\[([^\]]+)\] (?:file \S+ )?(?:function \S+ )?(?:line \d+ )?(.*): (SUCCESS|FAILURE|UNKNOWN|ERROR)$', out, re.M):
        r['props'][m.group(1)] = (m.group(2), m.group(3))
    if 'VERIFICATION SUCCESSFUL' in out: r['verdict'] = 'SUCCESS'
    elif 'VERIFICATION FAILED' in out: r['verdict'] = 'FAILED'
    elif 'VERIFICATION ERROR' in out or 'CONVERSION ERROR' in out or 'PARSING ERROR' in out: r['verdict'] = 'ERROR'
    # traces
    for m in re.finditer(r'^Trace for ([^\n:]+):\n(.*?)(?=^Trace for |^\*\* \d+ of \d+ failed|\Z)', out, re.M | re.S):
        vals = {}
        for mm in re.finditer(r'__vp_log\[(\d+)l?\]=(-?\d+)', m.group(2)):
            vals[int(mm.group(1))] = int(mm.group(2)) & ((1 << 64) - 1)
        n = 0
        nn = re.findall(r'__vp_n=(\d+)', m.group(2))
        if nn: n = int(nn[-1])
        lst = [vals.get(i, 0) for i in range(max(n, (max(vals) + 1) if vals else 0))]
        r['traces'][m.group(1).strip()] = lst
    return r

class Job:
    """one CBMC query group = one harness root at one bound"""
    def __init__(s, prop, name, src, root, units=(), defines=None, unwind=2, unwindset=None, flags=(),
                 backend='sat', timeout=600, mem_gb=12, tier='quick', stub=None, desc='', object_bits=None,
                 tv=20, covers=(), realloc_copy_max=None, extra_c=(), no_checks=False, arena=None,
                 expect_fail=(), gxx_extra=(), unit_defines=None, gxx_units=(), gxx_exclude=(), cut='', unwind_re=None, ir_exclude=(), ptr_overflow=True):
        s.prop = prop; s.name = name; s.src = src; s.root = root; s.units = list(units)
        s.defines = dict(defines or {}); s.unwind = unwind; s.unwindset = dict(unwindset or {})
        s.flags = list(flags); s.backend = backend; s.timeout = timeout; s.mem_gb = mem_gb; s.tier = tier
        s.stub = stub if stub is not None else DEFAULT_STUB
        s.desc = desc; s.object_bits = object_bits; s.tv = tv; s.covers = list(covers)
        s.realloc_copy_max = realloc_copy_max; s.extra_c = list(extra_c); s.no_checks = no_checks
        s.arena = arena; s.expect_fail = list(expect_fail); s.gxx_extra = list(gxx_extra)
        s.unit_defines = dict(unit_defines or {}); s.gxx_units = list(gxx_units); s.gxx_exclude = list(gxx_exclude); s.cut = cut; s.unwind_re = dict(unwind_re or {}); s.ir_exclude = list(ir_exclude); s.ptr_overflow = ptr_overflow

def backend_flags(b, bdir):
    env = dict(os.environ)
    if b == 'sat': return [], env
    if b == 'cadical': return ['--sat-solver', 'cadical'], env
    if b == 'kissat': return ['--external-sat-solver', 'kissat'], env
    if b in ('z3', 'cvc5', 'cvc5int'):
        shim = os.path.join(bdir, 'shim'); os.makedirs(shim, exist_ok=True)
        if b == 'z3':
            p = os.path.join(shim, 'z3')
            open(p, 'w').write('#!/bin/sh\nexec /usr/local/bin/z3-new "$@"\n'); os.chmod(p, 0o755)
            env['PATH'] = shim + ':' + env['PATH']
            return ['--z3'], env
        p = os.path.join(shim, 'cvc5')
        extra = ' --solve-bv-as-int=sum' if b == 'cvc5int' else ''
        open(p, 'w').write('#!/bin/sh\nexec /usr/bin/cvc5%s "$@"\n' % extra); os.chmod(p, 0o755)
        env['PATH'] = shim + ':' + env['PATH']
        return ['--cvc5', '--slice-formula'], env
    raise ValueError(b)

def build_job(job, bdir, log):
    """translate; returns dict with paths and translation info"""
    os.makedirs(bdir, exist_ok=True)
    dfl = ['-D%s=%s' % kv for kv in sorted({**job.unit_defines, **job.defines}.items())]
    hll = os.path.join(bdir, 'h.ll')
    must([CLANG] + IRFLAGS + dfl + [os.path.join(HARN, job.src), '-o', hll])
    units = [u for u in all_units() if u not in job.ir_exclude] if job.units == ['ALL'] else job.units
    with ThreadPoolExecutor(8) as ex:
        ulls = list(ex.map(lambda u: compile_unit_ll(bdir, u, job.unit_defines), units))
    allll = os.path.join(bdir, 'all.ll')
    if ulls:
        must(['llvm-link-14', '-S', hll] + ulls + ['-o', allll])
    else:
        shutil.copy(hll, allll)
    xc = os.path.join(bdir, 'x.c')
    rc, out, w, _ = sh([sys.executable, os.path.join(TOOL, 'll2c.py'), allll, xc, '--roots', job.root, '--stub', job.stub] + (['--cut', job.cut] if job.cut else []))
    info = {'ll2c_s': round(w, 2), 'ir_lines': sum(1 for _ in open(allll))}
    m = re.search(r'translated (\d+) functions, (\d+) globals; (\d+) external', out)
    if not m or rc != 0:
        raise ToolError('ll2c failed for %s:\n%s' % (job.name, out[-3000:]))
    info['functions_translated'] = int(m.group(1)); info['globals'] = int(m.group(2))
    info['externs'] = re.findall(r'EXTERN (\S+)', out)
    info['cuts'] = re.findall(r'CUT (\S+)', out)
    fl = os.path.join(bdir, 'x.c.funcs')
    info['functions'] = open(fl).read().split() if os.path.exists(fl) else []
    mainc = os.path.join(bdir, 'main.c')
    open(mainc, 'w').write('extern int __ll2c_exc_pending;\nvoid __ll2c_run_ctors(void);\nvoid %s(void);\nint main(void) { __ll2c_run_ctors(); %s();\n#ifndef __LL2C_CONCRETE\n  __CPROVER_assert(!__ll2c_exc_pending, "no C++ exception escapes the harness");\n#endif\n  return 0; }\n' % (job.root, job.root))
    return {'xc': xc, 'mainc': mainc, 'info': info}

def apply_arena(xc, n):
    """(harness-side, no /repo change) serve the first uint32_t realloc from a static
    array of n slots so SAT sees a small constant-size arena; any other realloc of
    that element type is cut (assume false) and counted."""
    s = open(xc).read()
    pat = re.compile(r'static uint32_t\* __ll2c_realloc_uint32_t\(uint32_t\* old, uint64_t bytes\) \{.*?\n\}\n', re.S)
    new = '''static uint32_t __ll2c_arena_u32[%d];
static int __ll2c_arena_used = 0;
static uint32_t* __ll2c_realloc_uint32_t(uint32_t* old, uint64_t bytes) {
  if (old != 0 || __ll2c_arena_used || bytes != sizeof(__ll2c_arena_u32)) __ll2c_cut_realloc();
  __ll2c_arena_used = 1;
  return __ll2c_arena_u32;
}
''' % n
    s2, k = pat.subn(lambda m: new, s)
    open(xc, 'w').write(s2)

def make_gb(bdir, xc, mainc, tag, cdefs, extra_c=()):
    gb = os.path.join(bdir, tag + '.gb'); gb2 = os.path.join(bdir, tag + '2.gb')
    must(['goto-cc', '-I' + RT] + cdefs + [xc, os.path.join(RT, 'rt.c'), mainc] + list(extra_c) + ['-o', gb])
    must(['goto-instrument', '--drop-unused-functions', gb, gb2])
    return gb2

def loops_matching(gb, unwind_re):
    """per-loop bounds from regexes over loop ids (function.N), resolved against the goto binary"""
    rc, out, w, _ = sh(['goto-instrument', '--show-loops', gb], timeout=900)
    ids = re.findall(r'^Loop (\S+):', out, re.M)
    if not ids:
        raise RuntimeError('show-loops gave no loop ids for %s (rc=%s after %.0fs)' % (gb, rc, w))
    res = {}
    for rx, n in unwind_re.items():
        for i in ids:
            if re.search(rx, i): res[i] = max(res.get(i, 0), n)
    return res

def run_cbmc(job, gb, bdir, witness=False):
    fl, env = backend_flags(job.backend if not witness else ('sat' if job.backend in ('z3', 'cvc5', 'cvc5int') else job.backend), bdir)
    cmd = ['cbmc', gb, '--unwind', str(job.unwind)] + CBMC_BASE + fl
    uws = dict(job.unwindset)
    if job.unwind_re: uws.update(loops_matching(gb, job.unwind_re))
    if uws:
        cmd += ['--unwindset', ','.join('%s:%d' % kv for kv in uws.items())]
    cmd += ['--object-bits', str(job.object_bits or 10)]
    if witness or job.no_checks:
        cmd += ['--no-standard-checks']
    elif job.ptr_overflow:
        cmd += ['--pointer-overflow-check']
    cmd += job.flags
    rc, out, w, rss = sh(cmd, timeout=job.timeout, mem_gb=job.mem_gb, env=env)
    r = parse_cbmc(out)
    r['rc'] = rc; r['wall_s'] = round(w, 2); r['rss_mb'] = rss // 1024; r['cmd'] = ' '.join(cmd)
    r['timeout'] = (rc == -999)
    if r['verdict'] is None:
        r['tail'] = out[-3000:]
    r['raw'] = out
    return r

_obj_lock = threading.Lock()
_obj_done = {}
def compile_unit_obj(bdir, unit, defines, extra=()):
    """g++ -c one /repo unit, once per (unit, defines, extra flags) per run"""
    key = (unit, defs_key(dict(defines, __extra=' '.join(extra))))
    with _obj_lock:
        ev = _obj_done.get(key)
        owner = ev is None
        if owner:
            ev = {'ev': threading.Event(), 'path': None, 'err': None}; _obj_done[key] = ev
    if not owner:
        ev['ev'].wait()
        if ev['err']: raise ToolError(ev['err'])
        return ev['path']
    try:
        odir = os.path.normpath(os.path.join(bdir, '..', '_objs_' + key[1])); os.makedirs(odir, exist_ok=True)
        out = os.path.join(odir, unit.replace('/', '__') + '.o')
        must(['g++'] + GXXFLAGS + list(extra) + ['-D%s=%s' % kv for kv in sorted(defines.items())] + ['-c', os.path.join(SRC, unit), '-o', out])
        ev['path'] = out
    except Exception as e:
        ev['err'] = str(e); raise
    finally:
        ev['ev'].set()
    return ev['path']

SAN = ['-fsanitize=address,undefined', '-fno-sanitize=vptr', '-fno-sanitize-recover=undefined', '-g']

def build_concrete(job, bdir, built, sanitize=False):
    """g++ build of the harness + the real units + concrete vp runtime -> executable"""
    exe = os.path.join(bdir, 'real_san.exe' if sanitize else 'real.exe')
    dfl = ['-D%s=%s' % kv for kv in sorted({**job.unit_defines, **job.defines}.items())]
    mainc = os.path.join(bdir, 'main_cc.cc')
    open(mainc, 'w').write('extern "C" void %s();\nint main() { %s(); return 0; }\n' % (job.root, job.root))
    rtc = os.path.join(bdir, 'rt_concrete.o')
    must(['gcc', '-O1', '-c', os.path.join(RT, 'rt_concrete.c'), '-o', rtc])
    if job.units == ['ALL'] or job.gxx_units == ['ALL']:
        units = [u for u in all_units() if u not in job.gxx_exclude]
    else:
        units = job.units + job.gxx_units
    xf = SAN if sanitize else []
    with ThreadPoolExecutor(12) as ex:
        objs = list(ex.map(lambda u: compile_unit_obj(bdir, u, job.unit_defines, xf), units))
    must(['g++'] + GXXFLAGS + xf + dfl + [os.path.join(HARN, job.src)] + objs + [mainc, rtc] + job.gxx_extra + (['-lgmp'] if len(units) > 20 else []) + ['-o', exe])
    return exe

def build_generated(job, bdir, built):
    exe = os.path.join(bdir, 'gen.exe')
    must(['gcc', '-O1', '-w', '-D__LL2C_CONCRETE', '-I' + RT, built['xc'], os.path.join(RT, 'rt.c'),
          os.path.join(RT, 'rt_concrete.c'), built['mainc'], '-lm', '-o', exe])
    return exe

def translation_validation(job, bdir, built, seed, n):
    """run gcc(generated C) and g++(real) on the same PRNG streams; outputs must agree"""
    res = {'runs': 0, 'agree': 0, 'reached_end': 0, 'skipped': None, 'mismatch': None}
    src = open(built['xc']).read()
    if '__CPROVER_bitvector' in src:
        res['skipped'] = 'generated C uses odd-width integers (__CPROVER_bitvector): not gcc-compilable'
        return res
    try:
        real = build_concrete(job, bdir, built)
        gen = build_generated(job, bdir, built)
    except ToolError as e:
        res['skipped'] = 'concrete build failed: ' + str(e)[-600:]
        return res
    for i in range(n):
        env = dict(os.environ); env['VP_SEED'] = str(seed * 1000 + i); env.pop('VP_REPLAY_FILE', None)
        a = sh([real], env=env, timeout=60)
        b = sh([gen], env=env, timeout=60)
        res['runs'] += 1
        if a[0] == b[0] and a[1] == b[1]:
            res['agree'] += 1
            if 'REACH' in a[1]: res['reached_end'] += 1
        else:
            res['mismatch'] = {'seed': seed * 1000 + i, 'real': a[1][-500:], 'real_rc': a[0], 'gen': b[1][-500:], 'gen_rc': b[0]}
            break
    return res

def replay_on_real(job, bdir, built, values, path=None, sanitize=False):
    exe = os.path.join(bdir, 'real_san.exe' if sanitize else 'real.exe')
    if not os.path.exists(exe):
        exe = build_concrete(job, bdir, built, sanitize)
    path = path or os.path.join(bdir, 'replay.txt')
    open(path, 'w').write('\n'.join(str(v) for v in values) + '\n')
    env = dict(os.environ); env['VP_REPLAY_FILE'] = path; env.pop('VP_SEED', None); env['ASAN_OPTIONS'] = 'detect_leaks=0'
    rc, out, w, _ = sh([exe], env=env, timeout=120)
    return rc, out

def run_job(job, seed, keep=False):
    """full treatment of one job; returns result dict"""
    bdir = os.path.join(VERIF, 'build', job.prop, job.name)
    shutil.rmtree(bdir, ignore_errors=True)
    t0 = time.time()
    R = {'job': job.name, 'root': job.root, 'src': job.src, 'units': job.units, 'defines': job.defines, 'desc': job.desc,
         'unwind': job.unwind, 'unwindset': job.unwindset, 'backend': job.backend, 'status': None}
    try:
        built = build_job(job, bdir, None)
        R['translate'] = {k: v for k, v in built['info'].items()}
        cdefs = ['-DVP_LOG_MAX=%d' % job.defines.get('VP_LOG_MAX', 128)]
        if job.arena: cdefs.append('-D__LL2C_ARENA_%s=%d' % job.arena)
        if job.realloc_copy_max is not None: cdefs.append('-D__LL2C_REALLOC_COPY_MAX=%d' % job.realloc_copy_max)
        gb = make_gb(bdir, built['xc'], built['mainc'], 'm', cdefs, job.extra_c)
        gbw = make_gb(bdir, built['xc'], built['mainc'], 'w', cdefs + ['-DWITNESS'], job.extra_c)
        with ThreadPoolExecutor(2) as ex:
            fm = ex.submit(run_cbmc, job, gb, bdir, False)
            fw = ex.submit(run_cbmc, job, gbw, bdir, True)
            m = fm.result(); w = fw.result()
        rawm = m.pop('raw'); raww = w.pop('raw')
        if keep:
            open(os.path.join(bdir, 'main.out'), 'w').write(rawm); open(os.path.join(bdir, 'wit.out'), 'w').write(raww)
        R['main'] = {k: v for k, v in m.items() if k not in ('props', 'traces')}
        R['witness'] = {k: v for k, v in w.items() if k not in ('props', 'traces')}
        R['n_props'] = len(m['props'])
        R['failed_props'] = {k: v[0] for k, v in m['props'].items() if v[1] != 'SUCCESS'}
        # --- witness analysis
        reach = [k for k, v in w['props'].items() if v[0].startswith('REACH') and v[1] == 'FAILURE']
        covers_hit = sorted(set(int(re.search(r'COVER (\d+)', v[0]).group(1)) for k, v in w['props'].items()
                                if v[0].startswith('COVER') and v[1] == 'FAILURE'))
        covers_all = sorted(set(int(re.search(r'COVER (\d+)', v[0]).group(1)) for k, v in w['props'].items()
                                if v[0].startswith('COVER')))
        R['reach_end'] = bool(reach); R['covers_hit'] = covers_hit; R['covers_all'] = covers_all
        R['witness_samples'] = [{'prop': w['props'][k][0], 'nondet': w['traces'].get(k)} for k in list(w['traces'])[:3]]
        # --- replay the end-of-harness witness on the real g++ build
        R['witness_replayed'] = 0
        if reach and job.tv >= 0:
            vals = w['traces'].get(reach[0])
            if vals is not None:
                rc, out = replay_on_real(job, bdir, built, vals)
                R['witness_replay'] = {'rc': rc, 'reach': 'REACH' in out, 'tail': out[-300:]}
                if rc == 0 and 'REACH' in out: R['witness_replayed'] = 1
        # --- translation validation
        if job.tv > 0:
            R['tv'] = translation_validation(job, bdir, built, seed, job.tv)
        # --- verdict
        oom = ('ut of memory' in rawm) or ('ut of memory' in raww) or ('bad_alloc' in rawm) or ('bad_alloc' in raww)
        if m['timeout'] or w['timeout']:
            R['status'] = 'inconclusive'; R['why'] = 'timeout (main=%s witness=%s)' % (m['timeout'], w['timeout'])
        elif oom and m['verdict'] != 'FAILED':
            R['status'] = 'inconclusive'; R['why'] = 'solver ran out of memory (cap %s GB)' % job.mem_gb
        elif m['verdict'] == 'SUCCESS' and w['verdict'] == 'FAILED' and reach:
            missing = [c for c in job.covers if c not in covers_hit]
            if missing:
                R['status'] = 'broken'; R['why'] = 'expected cover points not reachable: %s' % missing
            elif job.tv > 0 and R['tv'].get('mismatch'):
                R['status'] = 'broken'; R['why'] = 'translation validation mismatch'
            elif R.get('witness_replay') and not R['witness_replayed']:
                R['status'] = 'broken'; R['why'] = 'CBMC witness trace does not reach the end on the real g++ build'
            else:
                R['status'] = 'pass'
        elif m['verdict'] == 'SUCCESS':
            R['status'] = 'broken'; R['why'] = 'vacuous: witness run did not reach the end of the harness (%s)' % w['verdict']
            R['wtail'] = raww[-1500:]
        elif m['verdict'] == 'FAILED':
            # replay every failed property that has a trace
            R['status'] = 'fail'; R['cex'] = []
            for k, (d, st) in m['props'].items():
                if st != 'FAILURE': continue
                vals = m['traces'].get(k)
                c = {'prop': k, 'desc': d, 'nondet': vals}
                if '.no-body.' in k or '.unwind.' in k or d.startswith('vp: nondet log overflow') or d.startswith('recursion unwinding'):
                    # bound too small / missing stub: tooling, never a violation
                    c['tooling'] = True
                elif vals is not None:
                    rc, out = replay_on_real(job, bdir, built, vals, sanitize=True)
                    c['replay_rc'] = rc; c['replay_out'] = out[-1500:]
                    c['reproduced'] = ('VP_ASSERT_FAILED' in out) or ('AddressSanitizer' in out) or ('runtime error:' in out) or rc in (-11, -6, 134, 139)
                R['cex'].append(c)
        else:
            R['status'] = 'broken'; R['why'] = 'cbmc verdict %s / witness %s' % (m['verdict'], w['verdict'])
            R['tail'] = (m.get('tail') or rawm[-2000:])
    except ToolError as e:
        R['status'] = 'broken'; R['why'] = str(e)[-3000:]
    R['wall_s'] = round(time.time() - t0, 1)
    if not keep:
        shutil.rmtree(bdir, ignore_errors=True)
    return R
