HOOK_COMMITS = ['d72f86d (H1 small arena for memory managers)', '62f5160 (H5 node header start size)', 'b191b11 (H6 hash_stream word log)',
                '9706867 (H4 small initial compute-table hash table; used only by the exploratory C07 component harness, see DESIGN.md 11.3)',
                'cfc3b0e (H4 refinement)', 'd40419b (H4 made add-only again)']
L3 = ('needs whole-library execution (initialize, real forests, operations, compute tables). Measured: the ll2c+CBMC encoding of the whole library '
      '(578-705 functions after pruning) does not get through symbolic execution of library/forest set-up within 50 min (registries and tables of '
      '1024 entries, libstdc++ container code, imprecise virtual dispatch), see DESIGN.md 11.3; ')
CLAIMS['C01'] = ('Bounded model checking of the mechanisms that make equality canonical, on the real code with symbolic node contents: (a) the real hash_stream is a fold '
                 'over the pushed words; (b) unpacked-full, unpacked-sparse and packed forms of a node (level size 3, every shape, every storage option, MT and EV+) feed '
                 'the same word sequence to the hash; (c) the duplicate test against packed storage is exact; (d) the per-variable unique table under a bounded symbolic '
                 'history of find/add/remove with symbolic hashes and a symbolic equivalence relation, and expand/shrink rehashing scripts; (e) EV+ edge-value normalisation '
                 '(normalize_evplus of the real forest.cc) to a canonical representative. Not covered: createReducedNode end to end on a real forest, chains of '
                 'operations (whole-library level).', 'DESIGN.md 11.2 C01')
CLAIMS['C02'] = ('Bounded model checking of the pack/unpack codec of node storage (real storage/simple.cc, unpacked_node.cc, memory manager): for every shape of a node of a '
                 'level of size 3 and every storage option, the FULL_ONLY, SPARSE_ONLY and FULL_OR_SPARSE views, getDownPtr and isSingletonNode return the stored child '
                 'map (children and EV+ edge values symbolic), and all views hash identically. The forest-wide audit of the reduction rule after histories is not covered '
                 '(whole-library level).', 'DESIGN.md 11.2 C02')
CLAIMS['C05'] = ('Bounded model checking of the per-operation scalar policies instantiated from the real operations/arith_*.cc: for plus, minus, mult, div, mod, max, min, '
                 'distmin on MT integer (all terminal values), MT real (all finite floats) and EV+ long (extended integers): apply() equals the scalar operation or raises the '
                 'documented error; short-cut predicates (first/second argument, x op x) are consistent with apply(); commutes() implies symmetry. Recursion over nodes, '
                 'comparisons, range queries and user maps are not covered (whole-library level). Findings: division/modulo/minus short cuts hide errors (known_findings.txt).',
                 'DESIGN.md 11.2 C05')
CLAIMS['C06'] = ('Bounded model checking of the reference-count storage: counter_array at every width with symbolic counts across the 255/256 and 65535/65536 transitions, '
                 'address_array (32/64 bit), level_array, and node_headers under a bounded symbolic history of new/link/unlink/cache/uncache (optimistic and pessimistic) '
                 'against a shadow model (delete exactly when specified, handle reuse only after recycling with zero counts). Recount over a whole forest is not covered.',
                 'DESIGN.md 11.2 C06')
CLAIMS['C16'] = ('Bounded model checking of the error paths reachable without a whole forest: constructor-time compatibility checks of binary operations on forest records '
                 'with symbolic attributes (error code iff predicate false), VALUE_OVERFLOW of the terminal codec, DIVIDE_BY_ZERO / SUBTRACT_INFINITY / INFINITY_DIV_INFINITY of '
                 'the scalar policies. State preservation after an error inside a recursion is not covered (whole-library level).', 'DESIGN.md 11.2 C16')
CLAIMS['C18'] = ('Bounded model checking of the four slot-array memory managers (array+grid, original grid, heap, free lists) from the real initManager through every '
                 'history of K request/recycle steps with symbolic sizes and victims (K=2 quick, K=3 thorough), against a shadow model: size, non-overlap, validity, contents '
                 'of live chunks untouched, every live chunk reported in use by the manager; shaped start states (a scripted prefix that leaves a split hole / several holes, '
                 'then 1-3 symbolic steps with sizes up to 14) for the hole managers, with the heap manager\'s own bookkeeping (current hole, heap root inside the used arena) '
                 'checked after every step; arena growth scripts; plus the bookkeeping of malloc_style. All CBMC pointer/bounds checks on.', 'DESIGN.md 11.2 C18')
CLAIMS['C19'] = ('Bounded model checking of the real terminal codec (terminal.h) and of forest::getEdgeForValue/getValueForEdge with every input symbolic at full machine '
                 'width: all 2^64 long values, all non-NaN float bit patterns, both booleans, +infinity; round trip, injectivity, unique zero handle, overflow rejection.',
                 'DESIGN.md 11.2 C19')
CLAIMS['C10'] = ('Bounded model checking of the terminal (level 0) cases of the three copy implementations of the real operations/copy.cc (copy_MT, copy_EV<EdgeOp_plus>, '
                 'copy_EV_fast) on operation/forest records: for every ordered pair of source/target kinds reached there, with the source value symbolic at full width '
                 '(integers, floats, EV+ values, +infinity), the result denotes the documented scalar conversion, +infinity is preserved or rejected. The recursion over nodes '
                 'and the round trip over whole functions are not covered (whole-library level).', 'DESIGN.md 11.2 C10')
CLAIMS['C12'] = ('Component-level bounded model checking of the storage/memory-manager policies: the real node storage (storage/simple.cc) over each of the four slot-array '
                 'memory managers and each storage option stores two nodes, releases one, stores a third into the recycled memory (padding recorded in the node tail) '
                 'and reads both back exactly (children symbolic). Together with C18 (managers) and C06 (deletion policies in node_headers). Policy independence of whole '
                 'operation histories is not covered (whole-library level).', 'DESIGN.md 11.2 C12')
CLAIMS['C04'] = ('Bounded model checking of the terminal cases and short cuts of union, intersection, difference and complement (real operations/union.cc, intersection.cc, '
                 'difference.cc, complement.cc: the real constructors, which derive the by-levels / identity-pattern flags, and the part of _compute before the recursion) for '
                 'every combination of reduction rules of operand and result forests (sets: fully, quasi; relations: fully, quasi, identity), same or distinct forests, operands '
                 '0 / true / non-terminal, every level L in [-3,3] and incoming index: the answer denotes the pointwise OR / AND / AND-NOT / NOT under the rules\' meaning of '
                 'skipped levels (constant vs identity pattern); plus one step of the cross product (real cross.cc): terminal answers, and each operand is unpacked as a stored '
                 'node only at the level it has in its own forest (handle numbers name nodes at different levels in the two operand forests). COPY, redundant/identity chain '
                 'building, unpacked nodes, the compute table and the operation registries are stand-ins; the recursion over nodes, compute-table use and operand '
                 'immutability are not covered (whole-library level).', 'DESIGN.md 11.2 C04')
CLAIMS['C17'] = ('Bounded model checking of the registries behind lifecycle safety, real code (forest.cc: registerForest / unregisterForest / getForestWithID / registerEdge / '
                 'unregisterEdge / unregisterDDEdges / markForDeletion; dd_edge.cc: constructors, attach / detach, copy, assignment, destructor) over forest records: every '
                 'history of K steps from {create forest, destroy forest, construct edge, attach, assign, destroy edge} over 3 forests and 3 edges (K = 3, 4 quick; 5, 6 thorough): '
                 'edges report exactly their owner, destroying a forest leaves its edges inert (no forest, node 0), root lists hold exactly the attached edges with consistent '
                 'links, forest identifiers are positive, never issued twice, and dead identifiers resolve to no forest. Stand-ins: the domain\'s own std::set registry, per-forest '
                 'unpacked-node lists, std::string label assignment, growth of the registry vector (capacity reserved). Not covered: operation / compute-table teardown, '
                 'initialize/cleanup cycles, errors raised when a detached edge is used (whole-library level).', 'DESIGN.md 11.2 C17')
CLAIMS['C11'] = ('Bounded model checking of the cardinality operation (real operations/cardinality.cc, card_templ<intcard>, real constructor) on the functions an edge denotes '
                 'without a node: the empty function and the terminal true met at any level L, i.e. the full set / full relation (fully reduced) or the identity pattern '
                 '(identity reduced): the recursion over the skipped levels returns the product of the sizes of the levels the function spans (relations: unprimed and primed; '
                 'identity pattern: unprimed only), for sets and relations, every reduction rule, every level of a 2-variable domain (primed levels included) and every '
                 'level size in [1,1023] (z3). Not covered: unpacking of real nodes and the compute table (cut), the real- and mpz-valued result types (z3 gave no verdict '
                 'on the double products in 900 s), node/edge counts. Plus one step of the real masked relation iterator (src/dd_edge.cc iterator_templ::first_pri + first_unpr(0,.), EV+ and MT): a bound '
                 'primed variable (mask entry in [0,3] or DONT_CHANGE) at a level skipped by a one-variable fully / identity reduced relation continues exactly when the rule lets the to-value through, '
                 'with the resolved minterm entries and unchanged accumulated value; likewise entered through first_unpr(1,.) on the relation and on a fully / quasi reduced set forest. Not covered: iteration through real nodes, free variables, next(), set iterators (whole-library level).', 'DESIGN.md 11.2 C11')
for p, why in [
    ('C03', 'construction from minterms and evaluation'), ('C07', 'compute tables inside operations; a component harness (harness/c07_ct.cc: real ct_styles.cc table with 8 buckets via hook H4, real node headers, 3 symbolic steps) was built and measured: '
            'symbolic execution alone did not finish in 50 min / ran out of 20 GB, because of std::vector growth, entry deletion and handle recycling loops over symbolic table state'),
    ('C08', 'reachability fixed points'), ('C09', 'image operations over relation nodes'), 
    ('C13', 'variable reordering of real forests'), ('C15', 'index-set conversion and lookup over real forests'), ('C20', 'saturation over partitioned relations')]:
    NA[p] = L3 + 'no leaf kernel of this property (%s) is separable from that set-up, so no solver-decided check is claimed.' % why
NA['C14'] = 'depends on libc/libstdc++ text formatting and parsing (fprintf/%e, istream) that cannot be encoded; stubbing it would assume the property'
