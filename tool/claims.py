HOOK_COMMITS = []
NYB = 'check not yet built in this revision (planned in DESIGN.md); not claimed until a solver-decided check exists'
CLAIMS['C19'] = ('Bounded model checking of the real terminal codec (terminal.h) with every input symbolic at full machine width: all 2^64 long '
                 'values, all non-NaN float bit patterns, both booleans; round trip, injectivity, unique zero handle, overflow rejection.', 'DESIGN.md §4 C19')
for p in ['C01','C02','C03','C04','C05','C06','C07','C08','C09','C10','C11','C12','C13','C15','C16','C17','C18','C20']:
    NA[p] = NYB
NA['C14'] = 'depends on libc/libstdc++ text formatting and parsing (fprintf/%e, istream) that cannot be encoded; stubbing it would assume the property'
