/* libstdc++ std::string members that live in libstdc++.so (no IR): display labels only, empty bodies.
   Listed as a stub in the evidence of every job that links this file. */
void _ZNSt7__cxx1112basic_stringIcSt11char_traitsIcESaIcEE9_M_assignERKS4_(void* self, void* other) { (void) self; (void) other; }
