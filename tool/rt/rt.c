// ll2c runtime for CBMC: exception model, heap model, C++ runtime entry points,
// verification primitives.  Every function here is part of the trusted base and is
// listed in evidence under "stubs".
#include <stdint.h>
#include <stddef.h>
#include <stdlib.h>
#include <string.h>
#ifdef __LL2C_CONCRETE
#include "cprover_concrete.h"
#endif
int __ll2c_exc_pending = 0;
void* __ll2c_exc_obj = 0;
void* __ll2c_exc_tinfo = 0;
int __ll2c_selector(void* tinfo) { return tinfo ? (int)(((uintptr_t)tinfo) & 0x7fffffff) | 1 : 1; }
void __ll2c_unreachable(void) { __CPROVER_assert(0, "ll2c: reached IR 'unreachable'"); __CPROVER_assume(0); }
void __ll2c_trap(void) { __CPROVER_assert(0, "ll2c: llvm.trap"); __CPROVER_assume(0); }
void __ll2c_terminate(void) { __CPROVER_assert(0, "ll2c: std::terminate (exception escaped nounwind)"); __CPROVER_assume(0); }
// untyped fallbacks: byte loops (bounded by the unwinding limit)
void __ll2c_memcpy(void* d, void* s, uint64_t n) { for (uint64_t i = 0; i < n; i++) ((uint8_t*)d)[i] = ((uint8_t*)s)[i]; }
void __ll2c_memmove(void* d, void* s, uint64_t n) {
  if ((uintptr_t)d <= (uintptr_t)s) { for (uint64_t i = 0; i < n; i++) ((uint8_t*)d)[i] = ((uint8_t*)s)[i]; }
  else { for (uint64_t i = n; i > 0; i--) ((uint8_t*)d)[i-1] = ((uint8_t*)s)[i-1]; }
}
void __ll2c_memset(void* d, uint8_t c, uint64_t n) { for (uint64_t i = 0; i < n; i++) ((uint8_t*)d)[i] = c; }
// C++ runtime
uint8_t* _Znwm(uint64_t n) { uint8_t* p = malloc(n); __CPROVER_assume(p != 0); return p; }
uint8_t* _Znam(uint64_t n) { uint8_t* p = malloc(n); __CPROVER_assume(p != 0); return p; }
void _ZdlPv(uint8_t* p) { free(p); }
void _ZdaPv(uint8_t* p) { free(p); }
void _ZdlPvm(uint8_t* p, uint64_t n) { free(p); }
void __cxa_pure_virtual(void) { __CPROVER_assert(0, "pure virtual call"); __CPROVER_assume(0); }
uint32_t __cxa_atexit(void (*f)(uint8_t*), uint8_t* a, uint8_t* d) { return 0; }
uint8_t* __cxa_allocate_exception(uint64_t n) { uint8_t* p = malloc(n); __CPROVER_assume(p != 0); return p; }
void __cxa_free_exception(uint8_t* p) { free(p); }
void __cxa_throw(uint8_t* obj, uint8_t* tinfo, uint8_t* dtor) { __ll2c_exc_pending = 1; __ll2c_exc_obj = obj; __ll2c_exc_tinfo = tinfo; }
uint8_t* __cxa_begin_catch(uint8_t* obj) { __ll2c_exc_pending = 0; return obj; }
void __cxa_end_catch(void) { }
void __cxa_rethrow(void) { __ll2c_exc_pending = 1; }
int32_t __cxa_guard_acquire(uint64_t* g) { return (*(uint8_t*)g) == 0; }
void __cxa_guard_release(uint64_t* g) { *(uint8_t*)g = 1; }
void __cxa_guard_abort(uint64_t* g) { }
// verification primitives
#ifndef __LL2C_CONCRETE
uint32_t nondet_u32(void); uint64_t nondet_u64(void);
#ifndef VP_LOG_MAX
#define VP_LOG_MAX 128
#endif
uint64_t __vp_log[VP_LOG_MAX];
uint32_t __vp_n = 0;
static void vp_logv(uint64_t v) {
  __CPROVER_assert(__vp_n < VP_LOG_MAX, "vp: nondet log overflow (raise VP_LOG_MAX)");
  __vp_log[__vp_n] = v; __vp_n++;
}
void vp_assume(uint32_t c) { __CPROVER_assume(c != 0); }
uint32_t vp_nondet_u32(void) { uint32_t v = nondet_u32(); vp_logv(v); return v; }
uint64_t vp_nondet_u64(void) { uint64_t v = nondet_u64(); vp_logv(v); return v; }
uint32_t vp_range(uint32_t lo, uint32_t hi) {
  uint32_t v = nondet_u32(); __CPROVER_assume(v >= lo && v <= hi); vp_logv(v); return v;
}
void vp_observe(uint64_t v) { }
size_t nondet_size_t(void);
__CPROVER_size_t __ll2c_nondet_size(void) { return nondet_size_t(); }
#endif
// free() of the static arena that replaces the first realloc (harness option) is a no-op
#ifdef __LL2C_CONCRETE
void __ll2c_free(uint8_t* p) { free(p); }
#else
void __ll2c_free(uint8_t* p) { if (p != 0 && !__CPROVER_DYNAMIC_OBJECT(p)) return; free(p); }
#endif
void __ll2c_note_alloc(void* p) { __CPROVER_assume(p != 0); }
void __ll2c_check_aligned(int ok) { __CPROVER_assert(ok, "ll2c: typed access through byte pointer is aligned"); }
void __ll2c_cut_realloc(void) {
#ifdef WITNESS
  __CPROVER_assume(0);
#else
  __CPROVER_assume(0);
#endif
}
void _ZNSt8ios_base4InitC1Ev(void* p) {}
void _ZNSt8ios_base4InitD1Ev(void* p) {}
void __ll2c_assert_fail(uint8_t* a, uint8_t* f, uint32_t l, uint8_t* fn) { __CPROVER_assert(0, "libc assert() failed in translated code"); __CPROVER_assume(0); }
void __ll2c_abort(void) { __CPROVER_assert(0, "abort() called in translated code"); __CPROVER_assume(0); }
void __ll2c_exit(int32_t c) { __CPROVER_assert(0, "exit() called in translated code"); __CPROVER_assume(0); }
uint32_t __ll2c_ctlz32(uint32_t x) { uint32_t n = 0; for (int i = 31; i >= 0; i--) { if (x >> i & 1) break; n++; } return n; }
uint64_t __ll2c_ctlz64(uint64_t x) { uint64_t n = 0; for (int i = 63; i >= 0; i--) { if (x >> i & 1) break; n++; } return n; }
uint32_t __ll2c_cttz32(uint32_t x) { uint32_t n = 0; for (int i = 0; i < 32; i++) { if (x >> i & 1) break; n++; } return n; }
uint64_t __ll2c_cttz64(uint64_t x) { uint64_t n = 0; for (int i = 0; i < 64; i++) { if (x >> i & 1) break; n++; } return n; }
