// Concrete implementation of harness/vp.h.  Linked (a) with the g++ build of a
// harness + the real /repo sources: replay of CBMC traces (VP_REPLAY_FILE) and the
// reference side of translation validation (VP_SEED); (b) with the gcc build of the
// ll2c-generated C: the other side of translation validation.
#include <stdio.h>
#include <stdlib.h>
#include <stdint.h>
#include <string.h>
static int inited = 0;
static uint64_t* rv = 0; static size_t rn = 0, ri = 0;
static uint64_t rng = 0; static int mode = 0; /* 1 replay, 2 random */
static void init(void) {
  if (inited) return; inited = 1;
  const char* f = getenv("VP_REPLAY_FILE");
  if (f) {
    FILE* F = fopen(f, "r"); if (!F) { fprintf(stderr, "cannot open %s\n", f); exit(3); }
    size_t cap = 1024; rv = malloc(cap * sizeof(uint64_t));
    unsigned long long v;
    while (fscanf(F, "%llu", &v) == 1) { if (rn == cap) { cap *= 2; rv = realloc(rv, cap * sizeof(uint64_t)); } rv[rn++] = v; }
    fclose(F); mode = 1; return;
  }
  const char* s = getenv("VP_SEED");
  rng = s ? strtoull(s, 0, 10) * 2654435761ULL + 88172645463325252ULL : 88172645463325252ULL; mode = 2;
}
static uint64_t next(void) { rng ^= rng << 13; rng ^= rng >> 7; rng ^= rng << 17; return rng; }
static uint64_t draw(int bits) {
  init();
  if (mode == 1) { return ri < rn ? rv[ri++] : 0; }
  uint64_t r = next(); uint64_t mask = bits == 64 ? ~0ULL : ((1ULL << bits) - 1);
  switch (r % 8) {
    case 0: return (next() % 5) & mask;
    case 1: return (uint64_t)(-(int64_t)(next() % 5)) & mask;
    case 2: return ((1ULL << (bits - 1)) - 2 + next() % 5) & mask;
    case 3: return ((1ULL << (bits - 2)) - 2 + next() % 5) & mask;
    case 4: return (next() % 300) & mask;
    case 5: return (next() % 70000) & mask;
    default: return next() & mask;
  }
}
void vp_assume(int c) { if (!c) { printf("ASSUME-STOP\n"); fflush(stdout); exit(0); } }
void vp_assert(int c, const char* msg) { if (!c) { printf("VP_ASSERT_FAILED: %s\n", msg); fflush(stdout); exit(1); } }
uint32_t vp_nondet_u32(void) { return (uint32_t) draw(32); }
uint64_t vp_nondet_u64(void) { return draw(64); }
uint32_t vp_range(uint32_t lo, uint32_t hi) {
  init();
  if (mode == 1) { uint32_t v = (uint32_t) draw(32); vp_assume(v >= lo && v <= hi); return v; }
  return lo + (uint32_t)(next() % ((uint64_t)hi - lo + 1));
}
void vp_cover(int k) { printf("COVER %d\n", k); }
void vp_cover_1(void) { vp_cover(1); }
void vp_cover_2(void) { vp_cover(2); }
void vp_cover_3(void) { vp_cover(3); }
void vp_cover_4(void) { vp_cover(4); }
void vp_cover_5(void) { vp_cover(5); }
void vp_cover_6(void) { vp_cover(6); }
void vp_cover_7(void) { vp_cover(7); }
void vp_cover_8(void) { vp_cover(8); }
void vp_cover_9(void) { vp_cover(9); }
void vp_cover_10(void) { vp_cover(10); }
void vp_cover_11(void) { vp_cover(11); }
void vp_cover_12(void) { vp_cover(12); }
void vp_cover_13(void) { vp_cover(13); }
void vp_cover_14(void) { vp_cover(14); }
void vp_cover_15(void) { vp_cover(15); }
void vp_cover_16(void) { vp_cover(16); }
void vp_cover_17(void) { vp_cover(17); }
void vp_cover_18(void) { vp_cover(18); }
void vp_cover_19(void) { vp_cover(19); }
void vp_cover_20(void) { vp_cover(20); }
void vp_cover_21(void) { vp_cover(21); }
void vp_cover_22(void) { vp_cover(22); }
void vp_cover_23(void) { vp_cover(23); }
void vp_cover_24(void) { vp_cover(24); }
void vp_cover_25(void) { vp_cover(25); }
void vp_cover_26(void) { vp_cover(26); }
void vp_cover_27(void) { vp_cover(27); }
void vp_cover_28(void) { vp_cover(28); }
void vp_cover_29(void) { vp_cover(29); }
void vp_cover_30(void) { vp_cover(30); }
void vp_cover_31(void) { vp_cover(31); }
void vp_cover_32(void) { vp_cover(32); }
void vp_cover_33(void) { vp_cover(33); }
void vp_cover_34(void) { vp_cover(34); }
void vp_cover_35(void) { vp_cover(35); }
void vp_cover_36(void) { vp_cover(36); }
void vp_cover_37(void) { vp_cover(37); }
void vp_cover_38(void) { vp_cover(38); }
void vp_cover_39(void) { vp_cover(39); }
void vp_cover_40(void) { vp_cover(40); }
void vp_reach(void) { printf("REACH\n"); fflush(stdout); }
void vp_observe(uint64_t v) { printf("OBS %llu\n", (unsigned long long) v); }
void __vpc_assert(int c, const char* msg) { vp_assert(c, msg); }
void __vpc_assume(int c) { vp_assume(c); }
void __vpc_cover(int k) { vp_cover(k); }
void __vpc_reach(void) { vp_reach(); }
