// Maps the CBMC builtins used by ll2c output to a concrete runtime, so that the
// generated C can be compiled with gcc and run side by side with the g++ build of
// the same harness (translation validation, DESIGN 2.3).
#pragma once
#include <stdio.h>
#include <stdlib.h>
#include <malloc.h>
typedef size_t __CPROVER_size_t;
typedef _Bool __CPROVER_bool;
void __vpc_assert(int c, const char* msg);
void __vpc_assume(int c);
void __vpc_cover(int k);
void __vpc_reach(void);
#define VP_ASSERT(c, m) __vpc_assert((c), (m))
#define VP_COVER(k) __vpc_cover(k)
#define VP_REACH() __vpc_reach()
#define __CPROVER_assume(c) __vpc_assume((c) != 0)
#define __CPROVER_assert(c, m) __vpc_assert((c) != 0, "cprover: " m)
#define __CPROVER_allocate(n, z) ((z) ? calloc(1, (n) ? (n) : 1) : malloc((n) ? (n) : 1))
#define __CPROVER_OBJECT_SIZE(p) malloc_usable_size(p)
