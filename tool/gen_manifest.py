#!/usr/bin/env python3
"""Regenerates MANIFEST.json from the table below (kept in one place so it stays valid)."""
import json, os
VERIF = os.path.dirname(os.path.dirname(os.path.abspath(__file__)))
TECH = 'bounded symbolic execution of the real code: clang -O1 LLVM IR of /repo -> C (tool/ll2c.py) -> CBMC 6.11 (SAT/SMT), --unwinding-assertions'
NOTE = ('Trusted: clang-14 -O1 lowering, tool/ll2c.py (cross-checked on every run by running gcc(generated C) against g++(real sources) on '
        'shared PRNG input streams and by replaying CBMC witness traces on the g++ build), CBMC + SAT/SMT solver, the heap/exception model and '
        'stubs in tool/rt/rt.c. Allocation never fails. Verdicts hold only inside the bounds printed per query in the evidence file.')
CLAIMS = {}   # id -> (text, design_ref)
NA = {}
exec(open(os.path.join(VERIF, 'tool', 'claims.py')).read())
props = [json.loads(l)['id'] for l in open(os.path.join(VERIF, 'properties.jsonl'))]
checks = []
for p in props:
    if p in CLAIMS:
        text, ref = CLAIMS[p]
        checks.append({
            'property_id': p, 'quick_cmd': './check %s quick' % p, 'thorough_cmd': './check %s thorough' % p,
            'evidence_file': 'evidence/%s.json' % p, 'replay_cmd_template': './check %s --replay {path}' % p,
            'engine': 'll2c+cbmc',
            'level_claimed': {'category': 'model_checking', 'text': text, 'design_ref': ref},
            'level_note': NOTE, 'technique': TECH})
man = {
    'version': 1,
    'setup_cmd': './setup.sh',
    'hooks': {'guard': 'MEDDLY_VERIF', 'enable': 'checks compile /repo/src/*.cc themselves with -DMEDDLY_VERIF (clang++-14 for the IR, g++ for replay builds); no build of /repo is modified',
              'baseline_off_cmd': 'cd /repo && make -k check', 'source_commits': HOOK_COMMITS, 'add_only': True},
    'engines': [{'name': 'll2c+cbmc', 'path': 'tool/', 'serves_properties': sorted(CLAIMS),
                 'kind_free_text': 'LLVM-IR-to-C translator (tool/ll2c.py) + CBMC 6.11 bounded model checker; driver ./check, pipeline tool/vpipe.py, job registry harness/registry.py'}],
    'checks': checks,
    'not_applicable': [{'property_id': p, 'reason': NA[p]} for p in props if p not in CLAIMS],
    'notes': 'See DESIGN.md. exit 0 = all query groups discharged and all witnesses reachable; exit 1 + VIOLATION line = counterexample replayed on the g++ build of /repo; exit 2 = tooling failure or inconclusive (timeout), never reported as a violation.',
}
for p in props:
    assert p in CLAIMS or p in NA, p
json.dump(man, open(os.path.join(VERIF, 'MANIFEST.json'), 'w'), indent=1)
print('claimed', sorted(CLAIMS), 'n/a', sorted(NA))
