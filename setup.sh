#!/bin/sh
# Nothing is fetched or cached: every check regenerates IR, C and goto binaries from /repo.
# This only verifies that the pre-installed tools are present.
set -e
cd "$(dirname "$0")"
for t in clang++-14 llvm-link-14 goto-cc goto-instrument cbmc gcc g++ python3; do
  command -v $t >/dev/null || { echo "missing tool: $t"; exit 1; }
done
python3 -c "import ast,sys; ast.parse(open('tool/ll2c.py').read()); ast.parse(open('tool/vpipe.py').read())"
mkdir -p evidence replays build
echo setup ok
