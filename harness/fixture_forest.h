// Real forest fixture: a real domain and a real forest object of the requested kind are
// constructed with the library's own constructors (domain::createBottomUp, mt_mdd_int(...),
// ...), *without* MEDDLY::initialize(): only the static registries that construction needs
// are initialised (unpacked_node, domain list, forest registry), and the policies object is
// filled by the harness (node storage style, memory-manager style, deletion, reduction,
// storage flags).  No operations and no compute tables exist in this fixture.
#pragma once
#include "forest_record.h"
#include "memory_managers/orig_grid.h"
#include "memory_managers/array_grid.h"
#include "memory_managers/heap_manager.h"
#include "memory_managers/freelists.h"
#include "storage/simple.h"
#include "forests/mtmddint.h"
#include "forests/mtmddbool.h"
#include "forests/mtmxdint.h"
#include "forests/mtmxdbool.h"
#include "forests/evmdd_pluslong.h"

#ifndef MMSTYLE
#define MMSTYLE orig_grid_style
#endif
#ifndef RULE
#define RULE 0            /* 0 fully, 1 quasi, 2 identity (relations only) */
#endif
#ifndef STOR
#define STOR 2            /* 0 FULL_ONLY, 1 SPARSE_ONLY, 2 FULL_OR_SPARSE */
#endif
#ifndef DELPOL
#define DELPOL 1          /* 0 never, 1 optimistic, 2 pessimistic */
#endif
#ifndef FKIND
#define FKIND 0           /* 0 MT int set, 1 MT bool set, 2 MT int relation, 3 EV+ long set */
#endif
#ifndef NVARS
#define NVARS 2
#endif
#ifndef VSIZE
#define VSIZE 2
#endif

struct fixture { MEDDLY::domain* d; MEDDLY::forest* f; };

static inline fixture make_fixture()
{
  using namespace MEDDLY;
  static bool statics = false;
  if (!statics) {
    memstats::initGlobalStats();
    unpacked_node::initStatics();
    domain::initDomList();
    forest::initStatics();
    initializer_list::isRunning = true;      // what initializeLibrary() sets last; no initializer list is run
    statics = true;
  }
  policies p(FKIND == 2);
  p.nodemm = new MMSTYLE("mm");
  p.nodestor = new simple_separated_style("simple");
  p.storage_flags = (STOR == 0) ? FULL_ONLY : (STOR == 1) ? SPARSE_ONLY : FULL_OR_SPARSE;
  p.reduction = (RULE == 0) ? reduction_rule::FULLY_REDUCED : (RULE == 1) ? reduction_rule::QUASI_REDUCED : reduction_rule::IDENTITY_REDUCED;
  p.deletion = (DELPOL == 0) ? policies::node_deletion::NEVER : (DELPOL == 1) ? policies::node_deletion::OPTIMISTIC : policies::node_deletion::PESSIMISTIC;
  p.useReferenceCounts = true;
  int bounds[NVARS]; for (int i = 0; i < NVARS; i++) bounds[i] = VSIZE;
  fixture X;
  X.d = domain::createBottomUp(bounds, NVARS);
#if FKIND == 0
  X.f = new mt_mdd_int(X.d, p);
#elif FKIND == 1
  X.f = new mt_mdd_bool(X.d, p);
#elif FKIND == 2
  X.f = new mt_mxd_int(X.d, p);
#else
  X.f = new evmdd_pluslong(X.d, p);
#endif
  return X;
}
