// C07 L2: a real compute table (storage/ct_styles.cc, ct_entry_type.cc, ct_vector.cc, freelist memory
// manager) with one real entry type  (node, node) -> node  over a forest record whose node headers are
// real (node_headers.cc + arrays.cc: cacheNode / uncacheNode / lastUnlink / recycling are the real code)
// and whose deleteNode is the stand-in of c06_headers.  Initial hash table 8 buckets (hook H4).
// -DCTSTYLE=0..3 (monolithic chained / monolithic unchained / per-operation chained / per-operation
// unchained)  -DSTALE=0..2 (aggressive / moderate / lazy)  -DPESS=0|1  -DNSTEPS
// Bounded symbolic history of { add(k1,k2 -> r), find(k1,k2), release node p, new node, removeStales,
// removeAll }.  Shadow: the set of entries added, node liveness, per-node reference count.
//   * find returns an entry only if one with that key was added and none of its nodes was deleted
//     since; the result is the one stored for that key;
//   * a handle whose node was deleted is not handed out again while an entry still mentions it;
//   * per-node cache count == number of entries in the table mentioning it (checked after removeAll
//     as "all zero", and after every add as "+1 per mention").
#include "forest_record.h"
#define private public
#define protected public
#include "ct_initializer.h"
#include "compute_table.h"
#include "ct_entry_type.h"
#include "ct_vector.h"
#include "memory_managers/freelists.h"
#undef private
#undef protected
using namespace MEDDLY;

#ifndef NSTEPS
#define NSTEPS 3
#endif
#ifndef CTSTYLE
#define CTSTYLE 2
#endif
#ifndef STALE
#define STALE 1
#endif
#ifndef PESS
#define PESS 0
#endif
#define NN 4               /* node handles 1..NN-1 */
#define NHSIZE 8
#define MAXE 4

enum { DEAD = 0, LIVE = 1 };
static int n_state[NN]; static unsigned n_in[NN];
static node_headers* NH;
static forest* F;

void MEDDLY::forest::deleteNode(node_handle p)
{
  vp_assert(p >= 1 && p < NN, "deleteNode called with a tracked handle");
  NH->setNodeAddress(p, 0);
  NH->deactivate(p);
  if (p >= 1 && p < NN) n_state[p] = DEAD;
}

struct entry { bool used; unsigned k1, k2, r; bool valid; };
static entry E[MAXE];

static unsigned mentions(unsigned p) {
  unsigned c = 0;
  for (int i = 0; i < MAXE; i++) if (E[i].used) { if (E[i].k1 == p) c++; if (E[i].k2 == p) c++; if (E[i].r == p) c++; }
  return c;
}

extern "C" void c07_ct()
{
  domain* d = (domain*) calloc(1, sizeof(domain)); d->nVars = 1;
  F = forest_record(false, range_type::INTEGER, edge_labeling::MULTI_TERMINAL, reduction_rule::FULLY_REDUCED, edge_type::VOID, terminal_type::INTEGER);
  F->d = d; F->deflt.useReferenceCounts = true; F->fid = 1;
  F->deflt.deletion = PESS ? policies::node_deletion::PESSIMISTIC : policies::node_deletion::OPTIMISTIC;
  memstats ms; statset ss;
  new (&F->nodeHeaders) node_headers(*F, ms, ss);
  F->nodeHeaders.initialize();
  NH = &F->nodeHeaders;
  NH->addresses->expand(NHSIZE); NH->levels->expand(NHSIZE); NH->cache_counts->expand(NHSIZE); NH->incoming_counts->expand(NHSIZE);
  NH->a_size = NHSIZE; NH->a_next_shrink = 0;
  for (int i = 1; i < NN; i++) {
    node_handle h = NH->getFreeNodeHandle();
    vp_assert(h == i, "handles issued in order");
    NH->setNodeLevel(h, 1); NH->linkNode(h); NH->setNodeAddress(h, 100 + h);
    n_state[i] = LIVE; n_in[i] = 1;
  }
  // compute-table statics, as ct_initializer::setup() does
  memstats::initGlobalStats();
  ct_vector::initStatics();
  ct_entry_type::initStatics();
  ct_initializer::setBuiltinStyle(CTSTYLE == 0 ? ct_initializer::MonolithicChainedHash : CTSTYLE == 1 ? ct_initializer::MonolithicUnchainedHash
                                  : CTSTYLE == 2 ? ct_initializer::OperationChainedHash : ct_initializer::OperationUnchainedHash);
  ct_initializer::setStaleRemoval(STALE == 0 ? staleRemovalOption::Aggressive : STALE == 1 ? staleRemovalOption::Moderate : staleRemovalOption::Lazy);
  ct_initializer::setMaxSize(64);
  ct_initializer::setMemoryManager(new freelist_style("FREELISTS"));
  compute_table::initStatics(ct_initializer::ct_factory, ct_initializer::the_settings);
  ct_entry_type* et = new ct_entry_type("verif");
  et->setFixed(F, F); et->setResult(F); et->doneBuilding();
  compute_table* CT = et->getCT();
  vp_assert(CT != nullptr, "compute table created");
  for (int i = 0; i < MAXE; i++) E[i].used = false;

  ct_vector key(2), res(1);
  for (int step = 0; step < NSTEPS; step++) {
    unsigned op = vp_range(0, 4);
    unsigned a = vp_range(1, NN-1), b = vp_range(1, NN-1), r = vp_range(1, NN-1);
    if (op == 0) {
      // operation protocol: look up, add the computed result on a miss (all nodes involved are live)
      vp_assume(n_state[a] == LIVE && n_state[b] == LIVE && n_state[r] == LIVE);
      key[0].setN(node_handle(a)); key[1].setN(node_handle(b));
      bool hit = et->findCT(key, res);
      int have = -1;
      for (int i = 0; i < MAXE; i++) if (E[i].used && E[i].k1 == a && E[i].k2 == b) have = i;
      if (hit) {
        vp_cover(1);
        vp_assert(have >= 0, "a hit is an entry that was added");
        if (have >= 0) vp_assert(unsigned(res[0].getN()) == E[have].r && E[have].valid, "a hit returns the stored result and mentions no reclaimed node");
      } else {
        res[0].setN(node_handle(r));
        et->addCT(key, res);
        bool placed = false;
        for (int i = 0; i < MAXE; i++) if (!placed && (!E[i].used || i == have)) { E[i].used = true; E[i].k1 = a; E[i].k2 = b; E[i].r = r; E[i].valid = true; placed = true; }
        vp_assume(placed);
        vp_cover(2);
      }
    } else if (op == 1) {
      // pure lookup with live key nodes
      vp_assume(n_state[a] == LIVE && n_state[b] == LIVE);
      key[0].setN(node_handle(a)); key[1].setN(node_handle(b));
      bool hit = et->findCT(key, res);
      if (hit) {
        int have = -1;
        for (int i = 0; i < MAXE; i++) if (E[i].used && E[i].k1 == a && E[i].k2 == b) have = i;
        vp_assert(have >= 0 && E[have].valid && unsigned(res[0].getN()) == E[have].r, "lookup returns only a live stored entry");
        vp_assert(n_state[E[have >= 0 ? have : 0].r] == LIVE || !PESS, "the returned node is not a deleted node");
      } else et->noaddCT(key);
    } else if (op == 2) {
      // the user releases its reference to node a
      vp_assume(n_state[a] == LIVE && n_in[a] > 0);
      n_in[a]--;
      F->unlinkNode(node_handle(a));
      if (n_state[a] == DEAD) {
        vp_cover(3);
        for (int i = 0; i < MAXE; i++) if (E[i].used && (E[i].k1 == a || E[i].k2 == a || E[i].r == a)) E[i].valid = false;
      }
    } else if (op == 3) {
      // a new node is created: its handle must not be one that a table entry still mentions
      node_handle h = NH->getFreeNodeHandle();
      vp_assume(h >= 1 && h < NN);
      vp_assert(n_state[h] == DEAD, "a recycled handle belonged to a deleted node");
      vp_assert(NH->getNodeCacheCount(h) == 0, "a handle is reused only when no table entry mentions it");
      NH->setNodeLevel(h, 1); NH->linkNode(h); NH->setNodeAddress(h, 100 + h);
      n_state[h] = LIVE; n_in[h] = 1;
      // entries that mentioned the old node can no longer exist
      for (int i = 0; i < MAXE; i++) if (E[i].used && !E[i].valid && (E[i].k1 == unsigned(h) || E[i].k2 == unsigned(h) || E[i].r == unsigned(h))) E[i].used = false;
      vp_cover(4);
    } else {
      CT->removeStales();
      // stale entries may be gone; entries that are still valid and whose nodes are referenced stay usable: nothing to assert on the shadow,
      // but invalid ones must never come back (checked by the hit assertions)
      vp_cover(5);
    }
    // cache counts never fall below the number of live entries we know of (entries may also have been dropped by the table)
    for (int p = 1; p < NN; p++) if (n_state[p] == LIVE) vp_assert(NH->getNodeCacheCount(p) <= mentions(p), "cache count does not exceed the entries that mention the node");
  }
  CT->removeAll();
  for (int p = 1; p < NN; p++) vp_assert(NH->getNodeCacheCount(p) == 0, "after removeAll no node has a cache count");
  vp_reach();
}
