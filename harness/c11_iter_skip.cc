// C11 L1 (masked relation iterator, one step): the decision of the real iterator_templ<EOP>::first_pri (src/dd_edge.cc)
// for a BOUND primed variable (the mask fixes the 'to' entry: a number or DONT_CHANGE) at a level the diagram SKIPS
// (the edge below is a terminal), in a one-variable relation forest that is fully or identity reduced, edge-valued
// (EOP = EdgeOp_plus<long>) or multi-terminal (EOP = EdgeOp_none).  Pointwise meaning of a skipped primed level:
// fully reduced - every 'to' value continues; identity reduced - only to == from continues.  DONT_CHANGE in the mask
// means to := from, so a skipped identity level ALWAYS continues under it.  first_unpr(0, .) below is the real one.
// Stand-in: forest::getValueForEdge (writes the terminal value into the minterm; not what is judged here).
#include "forest_record.h"
#define private public
#define protected public
#include "dd_edge.cc"
#undef private
#undef protected
using namespace MEDDLY;

void MEDDLY::forest::getValueForEdge(const edge_value &, node_handle, rangeval &) const { }

#ifndef EV
#define EV 1
#endif
// ENTRY 0: first_pri(1,p) on a relation; 1: first_unpr(1,p) on a relation (bound unprimed step, then the bound primed step);
// 2: first_unpr(1,p) on a set forest (fully / quasi reduced; a terminal below level 1 means the level is skipped)
#ifndef ENTRY
#define ENTRY 0
#endif
#if EV
typedef EdgeOp_plus<long> THE_EOP;
#else
typedef EdgeOp_none THE_EOP;
#endif

static minterm* mk_minterm(int from, int to, bool rel) {
  minterm* m = (minterm*) calloc(1, sizeof(minterm));
  m->num_vars = 1; m->for_relations = rel;
  m->_from = (int*) calloc(2, sizeof(int)); m->_to = (int*) calloc(2, sizeof(int));
  m->_from[1] = from; m->_to[1] = to;
  return m;
}

extern "C" void c11_iter_skip()
{
  bool fully = vp_nondet_bool();
  const bool rel = (ENTRY != 2);
  const reduction_rule other = rel ? reduction_rule::IDENTITY_REDUCED : reduction_rule::QUASI_REDUCED;
  forest* f = EV
    ? forest_record(rel, range_type::INTEGER, edge_labeling::EVPLUS, fully ? reduction_rule::FULLY_REDUCED : other, edge_type::LONG, terminal_type::OMEGA)
    : forest_record(rel, range_type::BOOLEAN, edge_labeling::MULTI_TERMINAL, fully ? reduction_rule::FULLY_REDUCED : other, edge_type::VOID, terminal_type::BOOLEAN);

  int from = int(vp_range(0, 3));
  bool dontchange = vp_nondet_bool();
  int mto = dontchange ? DONT_CHANGE : int(vp_range(0, 3));

  dd_edge::iterator* I = (dd_edge::iterator*) calloc(1, sizeof(dd_edge::iterator));
  I->F = f;
  I->M = mk_minterm(from, mto, ENTRY != 2);          // as restart() leaves it: bound entries copied from the mask
  I->mask = mk_minterm(from, mto, ENTRY != 2);
  I->U_from = (unpacked_node**) calloc(3, sizeof(unpacked_node*));
  I->U_to   = (unpacked_node**) calloc(3, sizeof(unpacked_node*));   // null: bound variable
  I->Z_from = (unsigned*) calloc(3, sizeof(unsigned));
  I->Z_to   = (unsigned*) calloc(3, sizeof(unsigned));
  I->ev_from = (edge_value*) calloc(3, sizeof(edge_value));
  I->ev_to   = (edge_value*) calloc(3, sizeof(edge_value));
  long up = long(vp_range(0, 7));
  if (EV) { if (ENTRY == 0) I->ev_from[1].set(up); else if (ENTRY == 1) I->ev_to[2].set(up); else I->ev_from[2].set(up); }

  node_handle p = vp_nondet_bool() ? 0 : -1;      // the edge below the skipped level: the transparent terminal or not
  iterator_templ<THE_EOP> IT(*I);
  bool found = (ENTRY == 0) ? IT.first_pri(1, p) : IT.first_unpr(1, p);

  int resolved = dontchange ? from : mto;
  bool expect = (p != 0) && (!rel || fully || from == resolved);
  vp_cover(1);
  vp_assert(found == expect, "a skipped primed level continues exactly when the rule lets the fixed 'to' value through (identity: to == from, with DONT_CHANGE meaning to := from)");
  if (found) {
    vp_cover(2);
    if (rel) vp_assert(I->M->_to[1] == resolved, "the reported 'to' entry is the mask entry, DONT_CHANGE resolved to the 'from' entry");
    vp_assert(I->M->_from[1] == from, "the reported 'from' entry is unchanged");
    if (EV) { long v; if (rel) I->ev_to[1].get(v); else I->ev_from[1].get(v); vp_assert(v == up, "the accumulated edge value passes a skipped level unchanged"); }
  }
  vp_reach();
}
