// C01 L2: the per-variable unique table (unique_table::subtable, real unique_table.cc)
// under a bounded symbolic history of find / add / remove following the library's
// find-before-add protocol.  The forest behind the table is a record whose node storage
// is a stub that serves chain links, hashes and the duplicate test from harness arrays:
// hashes and the equivalence relation between the NH items are SYMBOLIC (only constraint:
// equivalent items have equal hashes, which the hash/duplicate kernels establish).
// next_expand is lowered by a field write so that expand() and shrink() (rehash with
// convertToList/buildFromList) happen inside the bound.
#include "forest_record.h"
#define private public
#include "unique_table.h"
#undef private
using namespace MEDDLY;

#ifndef NSTEPS
#define NSTEPS 5
#endif
#ifndef NITEMS
#define NITEMS 4
#endif
//     /* items are node handles 1..NITEMS, node address == handle */

static unsigned hsh[NITEMS+1]; static unsigned cls[NITEMS+1];
static unsigned key_cls;

struct stub_storage : public node_storage {
  node_handle next[NITEMS+1];
  stub_storage(forest* f) : node_storage("stub", f) { for (int i = 0; i <= NITEMS; i++) next[i] = 0; }
  virtual void collectGarbage(bool) { }
  virtual void reportStats(output &, const char*, unsigned) const { }
  virtual node_address makeNode(node_handle, const unpacked_node &, node_storage_flags) { return 0; }
  virtual void unlinkDownAndRecycle(node_address) { }
  virtual void addDownToQueue(node_marker &, node_address) const { }
  virtual bool areDuplicates(node_address addr, const unpacked_node &nr) const {
    return addr <= NITEMS && cls[addr] == key_cls;
  }
  virtual void fillUnpacked(unpacked_node &, node_address, node_storage_flags) const { }
  virtual unsigned hashNode(int, node_address addr) const {
    return addr <= NITEMS ? hsh[addr] : 0;
  }
  virtual bool isSingletonNode(node_address, unsigned &, node_handle &) const { return false; }
  virtual node_handle getDownPtr(node_address, int) const { return 0; }
  virtual void getDownPtr(node_address, int, edge_value&, node_handle&) const { }
  virtual const void* getUnhashedHeaderOf(node_address) const { return nullptr; }
  virtual const void* getHashedHeaderOf(node_address) const { return nullptr; }
  virtual node_handle getNextOf(node_address addr) const {
    return addr <= NITEMS ? next[addr] : 0;
  }
  virtual void setNextOf(node_address addr, node_handle n) {
    if (addr <= NITEMS) next[addr] = n;
  }
  virtual void dumpInternalInfo(output &) const { }
  virtual node_address firstNodeAddress() const { return 0; }
  virtual node_address dumpInternalNode(output &, node_address, unsigned) const { return 0; }
  virtual void dumpInternalTail(output &) const { }
};

extern "C" void c01_ut()
{
  domain* d = (domain*) calloc(1, sizeof(domain)); d->nVars = 1;
  forest* f = forest_record(false, range_type::INTEGER, edge_labeling::MULTI_TERMINAL, reduction_rule::FULLY_REDUCED, edge_type::VOID, terminal_type::INTEGER);
  f->d = d; f->deflt.useReferenceCounts = true;
  memstats ms; statset ss;
  new (&f->nodeHeaders) node_headers(*f, ms, ss);
  f->nodeHeaders.initialize();
  stub_storage st(f);
  f->nodeMan = &st;
  for (int i = 1; i <= NITEMS; i++) {
    node_handle h = f->nodeHeaders.getFreeNodeHandle();
    vp_assert(h == i, "handles are issued in order");
    f->nodeHeaders.setNodeLevel(h, 1);
    f->nodeHeaders.setNodeAddress(h, node_address(h));
  }
  // symbolic hashes and a symbolic equivalence relation, consistent with each other
  for (int i = 1; i <= NITEMS; i++) { hsh[i] = vp_nondet_u32(); cls[i] = vp_range(0, NITEMS-1); }
  for (int i = 1; i <= NITEMS; i++) for (int j = 1; j < i; j++) if (cls[i] == cls[j]) vp_assume(hsh[i] == hsh[j]);

  unique_table::subtable T;
  T.init(f);
#ifndef MODE
#define MODE 0
#endif
  unpacked_node* key = (unpacked_node*) calloc(1, sizeof(unpacked_node));
  key->level = 1;
  bool present[NITEMS+1]; for (int i = 0; i <= NITEMS; i++) present[i] = false;
  unsigned count = 0; bool grew = false, shrank = false;
#if MODE == 0
  // free history without resizing (table stays at its minimum size of 8 buckets)
  for (int step = 0; step < NSTEPS; step++) {
    unsigned op = vp_range(0, 2);
    unsigned it = vp_range(1, NITEMS);
    {
      const unsigned i = it;          // symbolic item; all tables here are small plain arrays
      if (op == 0) {
        // createReducedNode protocol: look up the content; add the new node only if not found
        vp_assume(!present[i]);
        key->the_hash = hsh[i]; key_cls = cls[i];
        node_handle q = T.find(*key);
        bool exists = false;
        for (int j = 1; j <= NITEMS; j++) if (present[j] && cls[j] == cls[i]) exists = true;
        vp_assert((q != 0) == exists, "find reports a stored duplicate exactly when one exists");
        if (q) {
          vp_assert(q >= 1 && q <= NITEMS && present[q] && cls[q] == cls[i], "find returns a stored node equivalent to the key");
          vp_cover(1);
        } else {
          T.add(hsh[i], node_handle(i)); present[i] = true; count++;
        }
      } else if (op == 1) {
        vp_assume(present[i]);
        node_handle r = T.remove(hsh[i], node_handle(i));
        vp_assert(r == node_handle(i), "remove returns the exact item");
        present[i] = false; count--;
        vp_cover(2);
      } else {
        key->the_hash = hsh[i]; key_cls = cls[i];
        node_handle q = T.find(*key);
        bool exists = false;
        for (int j = 1; j <= NITEMS; j++) if (present[j] && cls[j] == cls[i]) exists = true;
        vp_assert((q != 0) == exists, "lookup finds a node iff an equivalent one is stored");
      }
    }
    vp_assert(T.getNumEntries() == count, "number of entries equals the number of stored nodes");
    vp_assert(T.getSize() == 8, "no resize below the growth threshold");
  }
#else
  // resize script (growth threshold lowered to 2 by a field write, stated): items 1..NITEMS are
  // pairwise inequivalent with symbolic hashes; add 1, 2, 3 (the third add rehashes 8 -> 16),
  // [MODE 2: remove 1, 2 (the second remove rehashes 16 -> 8)], then every stored item must be found.
  for (int i = 1; i <= NITEMS; i++) for (int j = 1; j < i; j++) vp_assume(cls[i] != cls[j]);
  T.next_expand = 2;
  for (int i = 1; i <= 3; i++) { T.add(hsh[i], node_handle(i)); present[i] = true; count++; }
  vp_assert(T.getSize() == 16 && T.getNumEntries() == 3, "third add expanded the table and kept the entries");
  grew = true;
#if MODE == 2
  for (int i = 1; i <= 2; i++) { node_handle r = T.remove(hsh[i], node_handle(i)); vp_assert(r == node_handle(i), "remove returns the exact item"); present[i] = false; count--; }
  vp_assert(T.getSize() == 8 && T.getNumEntries() == 1, "removals shrank the table and kept the remaining entry");
  shrank = true;
#endif
  {
    key->the_hash = hsh[NITEMS]; key_cls = cls[NITEMS];
    vp_assert(T.find(*key) == 0, "an item that was never added is not found after rehashing");
  }
#endif
  // final audit: every stored node is found through its own content, in the right bucket
  for (int i = 1; i <= NITEMS; i++) if (present[i]) {
    key->the_hash = hsh[i]; key_cls = cls[i];
    node_handle q = T.find(*key);
    vp_assert(q == i, "every stored node is found again (chains survive rehashing and move-to-front)");
  }
  if (grew) vp_cover(3);
  if (shrank) vp_cover(4);
  vp_reach();
}
