// C04 L1 (CROSS): the decisions of one step of cross_bool::compute_un / compute_pr (real operations/cross.cc,
// real constructor): terminal answers, and - for operands held in two DIFFERENT set forests in which the same
// handle number names nodes at different levels - whether an operand is unpacked as the node it is or expanded
// as a redundant node.  Lemma checked (it holds for every operation): an unpacked node is initialised from a
// stored node only at the level that node has IN ITS OWN FOREST, and as a redundant node only above it.
// Stand-ins: unpacked_node::New returns a zeroed object tied to the forest; initFromNode / initRedundant carry
// the assertions and then end the path (what happens with the unpacked nodes afterwards is outside this check);
// the compute table is a stand-in that never hits; operation constructors set the forests only.
#include "forest_record.h"
#define private public
#define protected public
#include "operations/cross.cc"
#undef private
#undef protected
using namespace MEDDLY;

#define MAXL 3
enum { HA = 3, HB = 4 };
static forest *F1, *F2, *FR;
static int curLevel;      // the (unprimed) level the step works at

MEDDLY::operation::operation() { name = nullptr; }
MEDDLY::operation::~operation() { }
MEDDLY::binary_operation::binary_operation(forest* a1, forest* a2, forest* r) : operation() { arg1F = a1; arg2F = a2; resF = r; }
MEDDLY::binary_operation::~binary_operation() { }

// compute table that never hits
class ct_standin : public compute_table {
  public:
    ct_standin(const ct_settings &s) : compute_table(s, 0) { }
    virtual void find(ct_entry_key*, ct_entry_result &) { }
    virtual void addEntry(ct_entry_key*, const ct_entry_result &) { }
    virtual bool find(const ct_entry_type&, ct_vector &, ct_vector &) { return false; }
    virtual void addEntry(const ct_entry_type&, ct_vector &, const ct_vector &) { }
    virtual void doneKey(ct_vector &) { }
    virtual void removeStales() { }
    virtual void removeAll() { }
    virtual void show(output &, int) { }
    virtual void countNodeEntries(const forest*, std::vector <unsigned long> &) const { }
};
MEDDLY::ct_vector::ct_vector(unsigned sz) : _size(sz) { data = (ct_item*) calloc(sz ? sz : 1, sizeof(ct_item)); }
MEDDLY::ct_vector::~ct_vector() { }

MEDDLY::unpacked_node* MEDDLY::unpacked_node::New(const forest* f, node_storage_flags)
{
  unpacked_node* u = (unpacked_node*) calloc(1, sizeof(unpacked_node));
  u->parent = f;
  return u;
}
void MEDDLY::unpacked_node::initFromNode(node_handle node)
{
  vp_assert(node > 0, "only a stored node is unpacked");
  vp_assert(parent->getNodeLevel(node) == curLevel, "an operand is unpacked as a stored node only at the level that node has in its own forest");
  vp_cover(1);
  vp_assume(false);
}
void MEDDLY::unpacked_node::initRedundant(int k, node_handle node)
{
  vp_assert(k == curLevel, "a redundant expansion is made at the level of the step");
  vp_assert(parent->getNodeLevel(node) < k, "an operand is expanded as a redundant node only above the level it has in its own forest");
  vp_cover(2);
  vp_assume(false);
}

static forest* set_forest(reduction_rule rr, domain* d, unsigned id, bool rel) {
  forest* f = forest_record(rel, range_type::BOOLEAN, edge_labeling::MULTI_TERMINAL, rr, edge_type::VOID, terminal_type::BOOLEAN);
  f->d = d; f->fid = id;
  memstats* ms = new memstats; statset* ss = new statset;
  new (&f->nodeHeaders) node_headers(*f, *ms, *ss);
  f->nodeHeaders.initialize();
  f->nodeHeaders.levels->expand(8);
  f->nodeHeaders.a_size = 8;
  return f;
}

extern "C" void c04_cross()
{
  domain* d = (domain*) calloc(1, sizeof(domain)); d->nVars = MAXL;
  bool same12 = vp_nondet_bool();
  F1 = set_forest(vp_nondet_bool() ? reduction_rule::FULLY_REDUCED : reduction_rule::QUASI_REDUCED, d, 1, false);
  F2 = same12 ? F1 : set_forest(vp_nondet_bool() ? reduction_rule::FULLY_REDUCED : reduction_rule::QUASI_REDUCED, d, 2, false);
  unsigned rr = vp_range(0, 2);
  FR = set_forest(rr == 0 ? reduction_rule::FULLY_REDUCED : rr == 1 ? reduction_rule::QUASI_REDUCED : reduction_rule::IDENTITY_REDUCED, d, 3, true);
  ct_settings cs; cs.maxSize = 64; cs.staleRemoval = staleRemovalOption::Moderate;
  compute_table::Monolithic_CT = new ct_standin(cs);
  cross_bool* op = new cross_bool(F1, F2, FR);

  // the same handle numbers name nodes at independently chosen levels in the two forests
  int k = int(vp_range(0, MAXL));
  for (int h = HA; h <= HB; h++) {
    int l1 = int(vp_range(1, MAXL)), l2 = int(vp_range(1, MAXL));
    F1->nodeHeaders.setNodeLevel(h, l1);
    if (F2 != F1) F2->nodeHeaders.setNodeLevel(h, l2);
  }
  unsigned ka = vp_range(0, 2), kb = vp_range(0, 2);
  node_handle A = ka == 0 ? 0 : ka == 1 ? -1 : (vp_nondet_bool() ? HA : HB);
  node_handle B = kb == 0 ? 0 : kb == 1 ? -1 : (vp_nondet_bool() ? HA : HB);
  // operands of a step at level k live at or below level k in their own forests
  vp_assume(F1->getNodeLevel(A) <= k && F2->getNodeLevel(B) <= k);
  bool primed = vp_nondet_bool();
  vp_assume(!(primed && k == 0));
  curLevel = k;
  node_handle C = primed ? op->compute_pr(vp_range(0, 2), -k, A, B) : op->compute_un(k, A, B);
  // a terminal answer
  vp_cover(3);
  if (A == 0 || B == 0) vp_assert(C == 0, "the cross product with an empty set is empty");
  else vp_assert(!primed && k == 0 && C == A, "only at level 0 is a non-empty cross product answered without unpacking");
  vp_reach();
}
