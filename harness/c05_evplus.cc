// C05 / C16 L1: EV+ (long) scalar policies of the arithmetic templates, from the real
// operations/arith_*.cc.  An EV+ terminal edge is (value v, node n) with n == OMEGA_NORMAL
// (denotes v) or n == OMEGA_INFINITY (denotes +infinity, canonical value 0).
// All finite values symbolic 64-bit (|v| < 2^31 for mult so that the product cannot overflow, and for div/mod where the
// 64-bit divider at 2^62 did not finish in z3 within 10 minutes;
// |v| < 2^62 for plus/minus: signed overflow of edge values is undefined behaviour, outside).
#include "forest_record.h"
#ifndef OP
#define OP 0
#endif
#if OP == 0
#include "operations/arith_plus.cc"
#define POL evplus_plus
#define STYLE 0       /* arith_compat: node part and value part separately */
#elif OP == 1
#include "operations/arith_minus.cc"
#define POL evplus_minus
#define STYLE 0
#elif OP == 2
#include "operations/arith_mult.cc"
#define POL evplus_mult
#define STYLE 1       /* arith_pushdn: apply(av, an, bv, bn, cv, cn) */
#elif OP == 3
#include "operations/arith_div.cc"
#define POL evplus_div
#define STYLE 1
#elif OP == 4
#include "operations/arith_mod.cc"
#define POL evplus_mod
#define STYLE 1
#elif OP == 5
#include "operations/arith_max.cc"
#define POL evplus_max
#define STYLE 2       /* arith_factor: apply(c, d, e, f, a, b) */
#else
#include "operations/arith_min.cc"
#define POL evplus_min
#define STYLE 2
#endif
using namespace MEDDLY;

struct ev { bool inf; long v; };
enum { R_VALUE = 0, R_DBZ = 1 + int(error::DIVIDE_BY_ZERO), R_SUBINF = 1 + int(error::SUBTRACT_INFINITY), R_INFINF = 1 + int(error::INFINITY_DIV_INFINITY) };

// documented scalar semantics on the extended integers; returns R_VALUE or the error
static int spec(ev a, ev b, ev &c) {
  c.inf = false; c.v = 0;
  switch (OP) {
    case 0: if (a.inf || b.inf) c.inf = true; else c.v = a.v + b.v; return R_VALUE;
    case 1: if (b.inf) return R_SUBINF; if (a.inf) c.inf = true; else c.v = a.v - b.v; return R_VALUE;
    case 2: if (a.inf || b.inf) c.inf = true; else c.v = a.v * b.v; return R_VALUE;
    case 3: if (b.inf) { if (a.inf) return R_INFINF; c.v = 0; return R_VALUE; }
            if (b.v == 0) return R_DBZ; if (a.inf) { c.inf = true; return R_VALUE; } c.v = a.v / b.v; return R_VALUE;
    case 4: if (b.inf) { if (a.inf) return R_INFINF; c.v = a.v; return R_VALUE; }
            if (b.v == 0) return R_DBZ; if (a.inf) { c.inf = true; return R_VALUE; } c.v = a.v % b.v; return R_VALUE;
    case 5: if (a.inf || b.inf) c.inf = true; else c.v = a.v > b.v ? a.v : b.v; return R_VALUE;
    default: if (a.inf) c = b; else if (b.inf) c = a; else c.v = a.v < b.v ? a.v : b.v; return R_VALUE;
  }
}

static ev any_ev() {
  ev x; x.inf = vp_nondet_bool(); x.v = (long) vp_nondet_u64();
  if (x.inf) x.v = 0;     // canonical infinity
#if OP == 2 || OP == 3 || OP == 4
  vp_assume(x.v > -(1L << 31) && x.v < (1L << 31));
#else
  vp_assume(x.v > -(1L << 62) && x.v < (1L << 62));
#endif
  return x;
}

static int run(forest* f, ev a, ev b, ev &c) {
  edge_value av(a.v), bv(b.v), cv; node_handle an = a.inf ? OMEGA_INFINITY : OMEGA_NORMAL, bn = b.inf ? OMEGA_INFINITY : OMEGA_NORMAL, cn = 777;
  try {
#if STYLE == 0
    POL<long>::apply(f, an, f, bn, f, cn);
    edge_value ab; POL<long>::apply(av, bv, ab);
    EdgeOp_plus<long>::clear(cv); EdgeOp_plus<long>::accumulateOp(cv, ab); EdgeOp_plus<long>::normalize(cv, cn);
#else
    POL<long>::apply(av, an, bv, bn, cv, cn);
#endif
  } catch (MEDDLY::error e) { return 1 + int(e.getCode()); }
  c.inf = (cn == OMEGA_INFINITY); c.v = long(cv);
  vp_assert(cn == OMEGA_INFINITY || cn == OMEGA_NORMAL, "result node is an omega terminal");
  return R_VALUE;
}

extern "C" void c05_evplus()
{
  bool ident = vp_nondet_bool();
  forest* f = forest_record(false, range_type::INTEGER, edge_labeling::EVPLUS, ident ? reduction_rule::IDENTITY_REDUCED : reduction_rule::FULLY_REDUCED, edge_type::LONG, terminal_type::OMEGA);
  ev a = any_ev(), b = any_ev(), c, e;
  {
    // read the operand values back through the real edge_value accessor, so that the
    // specification and the implementation divide / multiply syntactically identical terms
    edge_value ta(a.v), tb(b.v);
    a.v = long(ta); b.v = long(tb);
  }
  int rc = run(f, a, b, c);
  int want = spec(a, b, e);
  vp_assert(rc == want, "valid cases return a value, invalid scalar cases raise the documented error");
  if (want == R_VALUE) {
    vp_cover(1);
    vp_assert(c.inf == e.inf && (c.inf ? c.v == 0 : c.v == e.v), "EV+ apply computes the scalar operation on the extended integers (infinity canonical)");
    if (c.inf) vp_cover(2);
  } else vp_cover(3);

  // short cuts, judged pointwise at terminal level
  edge_value av(a.v), bv(b.v);
  node_handle an = a.inf ? OMEGA_INFINITY : OMEGA_NORMAL, bn = b.inf ? OMEGA_INFINITY : OMEGA_NORMAL;
#if STYLE == 0
  // the node parts are combined by the short cut, the values by apply(av,bv): judge the node part
  // with both values 0 (what the template sees after the values were factored out)
  if (a.v == 0 && b.v == 0) {
    node_handle a2 = an, b2 = bn;
    if (POL<long>::simplifiesToFirstArg(0, f, a2, f, bn)) {
      vp_cover(4);
      if (want == R_VALUE) vp_assert(c.inf == a.inf && c.v == 0, "simplifiesToFirstArg implies the result is the first argument");
      else vp_assert(0, "short cut 'result is the first argument' fires where the scalar case is invalid (an error must be raised)");
    }
    if (POL<long>::simplifiesToSecondArg(0, f, an, f, b2)) {
      vp_cover(5);
      if (want == R_VALUE) vp_assert(c.inf == b.inf && c.v == 0, "simplifiesToSecondArg implies the result is the second argument");
      else vp_assert(0, "short cut 'result is the second argument' fires where the scalar case is invalid (an error must be raised)");
    }
  }
#else
  {
    edge_value av2 = av, bv2 = bv; node_handle a2 = an, b2 = bn;
    if (POL<long>::simplifiesToFirstArg(0, f, av2, a2, f, bv, bn)) {
      vp_cover(4);
      bool zero_times_inf = (OP == 2) && ((!a.inf && a.v == 0 && b.inf) || (a.inf && !b.inf && b.v == 0));
      if (zero_times_inf) vp_assert(c.inf == a.inf && c.v == a.v, "0 * infinity: the short cut and apply() must agree on the value");
      else if (want == R_VALUE) vp_assert(c.inf == a.inf && c.v == a.v, "simplifiesToFirstArg implies the result is the first argument");
      else vp_assert(0, "short cut 'result is the first argument' fires where the scalar case is invalid (an error must be raised)");
    }
    av2 = av; a2 = an;
    if (POL<long>::simplifiesToSecondArg(0, f, av2, a2, f, bv, b2)) {
      vp_cover(5);
      bool zero_times_inf = (OP == 2) && ((!a.inf && a.v == 0 && b.inf) || (a.inf && !b.inf && b.v == 0));
      if (zero_times_inf) vp_assert(c.inf == b.inf && c.v == b.v, "0 * infinity: the short cut and apply() must agree on the value");
      else if (want == R_VALUE) vp_assert(c.inf == b.inf && c.v == b.v, "simplifiesToSecondArg implies the result is the second argument");
      else vp_assert(0, "short cut 'result is the second argument' fires where the scalar case is invalid (an error must be raised)");
    }
  }
#endif
  if (POL<long>::stopOnEqualArgs() && a.inf == b.inf && a.v == b.v) {
    vp_cover(6);
#if OP == 1 || OP == 3 || OP == 4
    edge_value cv; node_handle cn = 777;
#if OP == 1
    POL<long>::makeEqualResult(0, 0, f, an, f, cv, cn, nullptr);
#else
    POL<long>::makeEqualResult(0, 0, av, an, f, cv, cn, nullptr);
#endif
    if (want == R_VALUE) vp_assert(c.inf == (cn == OMEGA_INFINITY) && c.v == long(cv), "x op x short cut (makeEqualResult) equals apply(x,x)");
    else vp_assert(0, "short cut 'x op x' returns a value where the scalar case is invalid (an error must be raised)");
#else
    vp_assert(want == R_VALUE && c.inf == a.inf && c.v == a.v, "x op x == x for max/min");
#endif
  }
#if OP != 2
  if (POL<long>::commutes()) {
    ev d; int rc2 = run(f, b, a, d);
    vp_assert(rc2 == rc && (rc != R_VALUE || (d.inf == c.inf && d.v == c.v)), "commutes() implies symmetric apply");
  }
#endif
  vp_reach();
}
