// C11 L1: the cardinality operation (real operations/cardinality.cc, card_templ<intcard> / card_templ<realcard>,
// real constructor) on the part of the function an edge can denote without a node: the empty function and the
// terminal `true` met at any level L, which under the forest's reduction rule is the full set / full relation
// (fully reduced) or the identity pattern (identity reduced).  The recursion of _compute walks down the skipped
// levels and scales by the level sizes; every level size (unprimed and primed, 1..MAXSZ = 1023) is symbolic.
//   sets      (levels 2,1)          : |full|     = product of the sizes of levels <= L
//   relations (levels 2,-2,1,-1)    : |full|     = product of unprimed and primed sizes of levels at or below L
//                                     |identity| = product of the unprimed sizes of levels at or below L
//                                                  (a primed L contributes nothing: the incoming index fixes it)
// -DRT=0 integer result, 1 real result.  The unpacking of real nodes (and the compute table) is cut: its first
// action, allocating a compute-table key, assumes false.  Variable order = identity (level k holds variable k).
#include "forest_record.h"
#define private public
#define protected public
#include "operations/cardinality.cc"
#undef private
#undef protected
using namespace MEDDLY;

#ifndef RT
#define RT 0
#endif
#define NV 2
#ifndef MAXSZ
#define MAXSZ 15
#endif
#ifndef REL
#define REL 1
#endif
#ifndef RULE
#define RULE 2
#endif

MEDDLY::operation::operation() { name = nullptr; }
MEDDLY::operation::~operation() { }
MEDDLY::unary_operation::unary_operation(forest* a, opnd_type r) : operation() { argF = a; resF = nullptr; resultType = r; factory = nullptr; next = nullptr; }
MEDDLY::unary_operation::~unary_operation() { }
MEDDLY::ct_vector::ct_vector(unsigned sz) : _size(sz) { data = nullptr; vp_assume(false); }
MEDDLY::ct_vector::~ct_vector() { }

static long un[NV + 1], pr[NV + 1];
static domain* d;
#if RT == 0
static card_templ<intcard>* op;
#else
static card_templ<realcard>* op;
#endif

// one case with constant level and operand: implementation and specification multiply the same terms in the same order
static void run_case(bool rel, reduction_rule rule, int LL, bool empty)
{
#if RT == 0
  oper_item result(0L);
#else
  oper_item result(0.0);
#endif
  node_handle A = empty ? 0 : -1;
  op->_compute(LL, A, result);

  // specification, multiplying in the order of the recursion (innermost level first)
  long want = empty ? 0 : 1; double wantd = empty ? 0.0 : 1.0;
  if (!empty) {
    const int top = LL < 0 ? -LL : LL;
    for (int k = 1; k <= NV; k++) if (k <= top) {
      // level -k (primed), then level k (unprimed), bottom up
      if (rel) {
        bool primed_in = (k < top) || (LL > 0) || (LL < 0 && k == top);      // is level -k at or below L ?
        if (primed_in && rule != reduction_rule::IDENTITY_REDUCED) { want *= d->getVariableBound(unsigned(k), true); wantd *= long(d->getVariableBound(unsigned(k), true)); }
        bool unprimed_in = (k < top) || (LL > 0 && k == top);               // is level k at or below L ?
        if (unprimed_in) { want *= d->getVariableBound(unsigned(k), false); wantd *= long(d->getVariableBound(unsigned(k), false)); }
      } else {
        want *= d->getVariableBound(unsigned(k), false); wantd *= long(d->getVariableBound(unsigned(k), false));
      }
    }
  }
#if RT == 0
  vp_assert(result.getInteger() == want, "cardinality of the empty / full / identity function is the product of the sizes of the levels it spans");
#else
  vp_assert(result.getReal() == wantd, "real-valued cardinality of the empty / full / identity function is the product of the sizes of the levels it spans");
#endif
  if (!empty && LL != 0) vp_cover(1);
  if (rule == reduction_rule::IDENTITY_REDUCED && LL < 0 && !empty) vp_cover(2);
}

extern "C" void c11_card()
{
  compute_table::Monolithic_CT = (compute_table*) calloc(1, 64);
  for (int k = 1; k <= NV; k++) { un[k] = long(vp_range(1, MAXSZ)); pr[k] = long(vp_range(1, MAXSZ)); }
  // -DREL=0|1 -DRULE=0|1|2 (fully, quasi, identity) fix the kind of forest per query group
  static const reduction_rule RULES[3] = { reduction_rule::FULLY_REDUCED, reduction_rule::QUASI_REDUCED, reduction_rule::IDENTITY_REDUCED };
  forest* f = forest_record(REL == 1, range_type::BOOLEAN, edge_labeling::MULTI_TERMINAL, RULES[RULE], edge_type::VOID, terminal_type::BOOLEAN);
  d = (domain*) calloc(1, sizeof(domain)); d->nVars = NV;
  d->vars = (variable**) calloc(NV + 1, sizeof(variable*));
  for (int k = 1; k <= NV; k++) {
    variable* v = (variable*) calloc(1, sizeof(variable));
    v->un_bound = int(un[k]); v->pr_bound = int(pr[k]);
    d->vars[k] = v;
  }
  f->d = d;
  int order[NV + 1]; for (int k = 0; k <= NV; k++) order[k] = k;
  variable_order* vo = new variable_order(order, NV);
  *(const variable_order**) &f->var_order = vo;          // (element pointer of the shared_ptr; no control block needed for reading)
  memstats* ms = new memstats; statset* ss = new statset;
  new (&f->nodeHeaders) node_headers(*f, *ms, *ss);
  f->nodeHeaders.initialize();
#if RT == 0
  op = new card_templ<intcard>(f);
#else
  op = new card_templ<realcard>(f);
#endif
  // level and operand are matched against constants
  unsigned e = vp_range(0, 1);
  int L = int(vp_range(0, 2 * NV)); if (L > NV) L = NV - L;
  vp_assume(REL == 1 || L >= 0);                                  // sets have no primed levels
  vp_assume(!(RULE == 1 && e == 0 && L != 0));                    // a bare `true` above level 0 does not exist in a quasi-reduced forest
  for (int LL = -NV; LL <= NV; LL++) for (unsigned ce = 0; ce < 2; ce++)
    if (L == LL && e == ce) run_case(REL == 1, RULES[RULE], LL, ce == 1);
  vp_reach();
}
