// C19 L1: value <-> terminal/edge conversion of a forest (forest::getEdgeForValue and
// forest::getValueForEdge from the real forest.cc) on forest records of every labeling,
// with the value symbolic at full width (incl. +infinity for EV+).
#include "forest_record.h"
using namespace MEDDLY;
static const long TMIN = -1073741824L, TMAX = 1073741823L;
static inline bool is_nan_bits(unsigned u) { return (u & 0x7f800000u) == 0x7f800000u && (u & 0x007fffffu) != 0; }

template <class F> static int code_of(F fn) {
  try { fn(); return 0; } catch (MEDDLY::error e) { return 1 + int(e.getCode()); }
}

extern "C" void c19_edge_mt()
{
  unsigned kind = vp_range(0, 2);
  edge_value ev; node_handle p = 777; rangeval back;
  if (kind == 0) {
    forest* f = forest_record(false, range_type::BOOLEAN, edge_labeling::MULTI_TERMINAL, reduction_rule::FULLY_REDUCED, edge_type::VOID, terminal_type::BOOLEAN);
    bool b = vp_nondet_bool();
    f->getEdgeForValue(rangeval(b), ev, p);
    vp_assert(ev.isVoid() && p == (b ? -1 : 0), "boolean constant maps to terminal 0 / -1 with a void edge value");
    f->getValueForEdge(ev, p, back);
    vp_assert(back.isBoolean() && back.isNormal() && bool(back) == b, "boolean value survives the edge encoding");
    // a value of the wrong type is rejected
    int rc = code_of([&]{ f->getEdgeForValue(rangeval(5L), ev, p); });
    vp_assert(rc == 1 + int(error::TYPE_MISMATCH), "integer value into a boolean forest raises TYPE_MISMATCH");
    vp_cover(1);
  } else if (kind == 1) {
    forest* f = forest_record(false, range_type::INTEGER, edge_labeling::MULTI_TERMINAL, reduction_rule::FULLY_REDUCED, edge_type::VOID, terminal_type::INTEGER);
    long v = vp_nondet_i64();
    int rc = code_of([&]{ f->getEdgeForValue(rangeval(v), ev, p); });
    if (v >= TMIN && v <= TMAX) {
      vp_assert(rc == 0 && ev.isVoid() && (p == 0) == (v == 0) && p <= 0, "integer constant maps to a terminal; zero iff value zero");
      f->getValueForEdge(ev, p, back);
      vp_assert(back.isInteger() && back.isNormal() && long(back) == v, "integer value survives the edge encoding");
      vp_cover(2);
    } else {
      vp_assert(rc == 1 + int(error::VALUE_OVERFLOW) && p == 777, "integer outside the terminal range raises VALUE_OVERFLOW");
      vp_cover(3);
    }
    rc = code_of([&]{ f->getEdgeForValue(rangeval(range_special::PLUS_INFINITY, range_type::INTEGER), ev, p); });
    vp_assert(rc == 1 + int(error::NOT_IMPLEMENTED), "infinity into a multi-terminal forest is rejected");
  } else {
    forest* f = forest_record(false, range_type::REAL, edge_labeling::MULTI_TERMINAL, reduction_rule::FULLY_REDUCED, edge_type::VOID, terminal_type::REAL);
    unsigned u = vp_nondet_u32();
    vp_assume(!is_nan_bits(u));
    union { unsigned u; float f; } x; x.u = u;
    f->getEdgeForValue(rangeval(x.f), ev, p);
    vp_assert(ev.isVoid() && p <= 0 && (p == 0) == ((u & 0x7ffffffeu) == 0), "real constant maps to a terminal; zero iff value rounds to zero");
    f->getValueForEdge(ev, p, back);
    union { unsigned u; float f; } y; y.f = float(double(back));
    vp_assert(back.isReal() && back.isNormal() && ((p == 0) ? (y.u == 0) : (y.u == (u & 0xfffffffeu))), "real value survives the edge encoding up to the dropped fraction bit");
    vp_cover(4);
  }
  vp_reach();
}

extern "C" void c19_edge_ev()
{
  unsigned kind = vp_range(0, 3);
  edge_value ev; node_handle p = 777; rangeval back;
  if (kind <= 1) {
    // EV+ with int / long edge values, and index sets
    bool wide = vp_nondet_bool();
    forest* f = forest_record(false, range_type::INTEGER, kind == 0 ? edge_labeling::EVPLUS : edge_labeling::INDEX_SET, reduction_rule::FULLY_REDUCED,
                              wide ? edge_type::LONG : edge_type::INT, terminal_type::OMEGA);
    if (vp_nondet_bool()) {
      f->getEdgeForValue(rangeval(range_special::PLUS_INFINITY, range_type::INTEGER), ev, p);
      vp_assert(p == OMEGA_INFINITY && (wide ? long(ev) == 0 : int(ev) == 0), "+infinity maps to the (infinity, 0) edge");
      f->getValueForEdge(ev, p, back);
      vp_assert(back.isInteger() && back.isPlusInfinity(), "+infinity survives the EV+ edge encoding");
      vp_cover(1);
    } else {
      long v = vp_nondet_i64();
      if (!wide) vp_assume(v >= -2147483648L && v <= 2147483647L);
      f->getEdgeForValue(rangeval(v), ev, p);
      vp_assert(p == OMEGA_NORMAL, "finite value maps to the omega-normal terminal");
      f->getValueForEdge(ev, p, back);
      vp_assert(back.isInteger() && back.isNormal() && long(back) == v, "finite integer survives the EV+ edge encoding at full width");
      vp_cover(2);
    }
  } else {
    bool wide = (kind == 3);
    forest* f = forest_record(false, range_type::REAL, edge_labeling::EVTIMES, reduction_rule::FULLY_REDUCED, wide ? edge_type::DOUBLE : edge_type::FLOAT, terminal_type::OMEGA);
    unsigned u = vp_nondet_u32();
    vp_assume(!is_nan_bits(u));
    union { unsigned u; float f; } x; x.u = u;
    f->getEdgeForValue(rangeval(x.f), ev, p);
    bool zero = (u & 0x7fffffffu) == 0;
    vp_assert(p == (zero ? OMEGA_ZERO : OMEGA_NORMAL), "EV* value maps to omega-zero iff it is zero");
    f->getValueForEdge(ev, p, back);
    union { unsigned u; float f; } y; y.f = float(double(back));
    vp_assert(back.isReal() && back.isNormal() && (zero ? (double(back) == 0.0) : (y.u == u)), "real value survives the EV* edge encoding exactly");
    vp_cover(3);
  }
  vp_reach();
}
