// C05 / C16 L1: per-operation scalar policies of the arithmetic templates, instantiated
// from the real operations/arith_*.cc (included into this TU so the file-local policy
// structs are visible).  All operand values symbolic at full terminal / edge width.
//   (i)   apply(a,b) decodes to the scalar result of the documented operation, or throws
//         the documented error code;
//   (ii)  short-cut soundness at terminal level: simplifiesToFirstArg/SecondArg imply that
//         apply returns that argument; stopOnEqualArgs implies makeEqualResult == apply(a,a);
//   (iii) commutes() implies apply is symmetric.
#include "forest_record.h"
#ifndef OP
#define OP 0
#endif
// arith_templ.h has no include guard: exactly one operation file per TU
#if OP == 0
#include "operations/arith_plus.cc"
#define POL mt_plus
#elif OP == 1
#include "operations/arith_minus.cc"
#define POL mt_minus
#elif OP == 2
#include "operations/arith_mult.cc"
#define POL mt_mult
#elif OP == 3
#include "operations/arith_div.cc"
#define POL mt_div
#elif OP == 4
#include "operations/arith_mod.cc"
#define POL mt_mod
#elif OP == 5
#include "operations/arith_max.cc"
#define POL mt_max
#elif OP == 6
#include "operations/arith_min.cc"
#define POL mt_min
#else
#include "operations/arith_distmin.cc"
#define POL mt_distmin
#endif
using namespace MEDDLY;

static const long TMIN = -1073741824L, TMAX = 1073741823L;
enum { OP_PLUS, OP_MINUS, OP_MULT, OP_DIV, OP_MOD, OP_MAX, OP_MIN, OP_DISTMIN };
// scalar specification; returns false if the scalar case is invalid (division by zero)
static bool spec_long(long a, long b, long &c) {
  switch (OP) {
    case OP_PLUS: c = a + b; return true;
    case OP_MINUS: c = a - b; return true;
    case OP_MULT: c = a * b; return true;
    case OP_DIV: if (b == 0) return false; c = a / b; return true;
    case OP_MOD: if (b == 0) return false; c = a % b; return true;
    case OP_MAX: c = a > b ? a : b; return true;
    case OP_MIN: c = a < b ? a : b; return true;
    default:
      if (a < 0) c = (b < 0) ? (a < b ? a : b) : b;
      else c = (b < 0) ? a : (a < b ? a : b);
      return true;
  }
}

// returns 0 and c on success, 1+code on MEDDLY::error
template <class P>
static int do_apply(const forest* fa, node_handle a, const forest* fb, node_handle b, const forest* fc, node_handle &c) {
  try { P::apply(fa, a, fb, b, fc, c); return 0; }
  catch (MEDDLY::error e) { return 1 + int(e.getCode()); }
}

extern "C" void c05_mt_long()
{
  reduction_rule rr = vp_nondet_bool() ? reduction_rule::FULLY_REDUCED : reduction_rule::QUASI_REDUCED;
  forest* fa = forest_record(false, range_type::INTEGER, edge_labeling::MULTI_TERMINAL, rr, edge_type::VOID, terminal_type::INTEGER);
  forest* fb = fa; forest* fc = fa;
  // operands are arbitrary valid integer terminal handles (0, or sign bit set and not the
  // non-canonical 0x80000000); their values are read with the forest's own decoder, so the
  // specification and the implementation start from syntactically identical operand terms
  node_handle a = vp_nondet_i32(), b = vp_nondet_i32();
  vp_assume((a == 0 || a < 0) && a != (node_handle) 0x80000000 && (b == 0 || b < 0) && b != (node_handle) 0x80000000);
  long va, vb; fa->getValueFromHandle(a, va); fb->getValueFromHandle(b, vb);
  vp_assert(va >= TMIN && va <= TMAX && fa->handleForValue(va) == a, "handle decodes to an in-range value and re-encodes to itself");
#ifdef VBITS
  // stated bound for operations whose 64-bit circuit does not finish at full width
  vp_assume(va >= -(1L << (VBITS-1)) && va < (1L << (VBITS-1)) && vb >= -(1L << (VBITS-1)) && vb < (1L << (VBITS-1)));
#endif
  node_handle c = 777;
  int rc = do_apply< POL<long> >(fa, a, fb, b, fc, c);
  long expect; bool valid = spec_long(va, vb, expect);
  if (!valid) {
    vp_cover(1);
    vp_assert(rc == 1 + int(error::DIVIDE_BY_ZERO), "invalid scalar case raises DIVIDE_BY_ZERO");
  } else if (expect < TMIN || expect > TMAX) {
    vp_cover(2);
    vp_assert(rc == 1 + int(error::VALUE_OVERFLOW), "result outside the terminal range raises VALUE_OVERFLOW (never wraps)");
  } else {
    vp_cover(3);
    vp_assert(rc == 0, "valid scalar case returns a value");
    long got; fc->getValueFromHandle(c, got);
    vp_assert(got == expect, "MT integer apply computes the scalar operation");
  }
  // (ii) short cuts, judged at terminal level
  node_handle a2 = a, b2 = b;
  if (POL<long>::simplifiesToFirstArg(0, fa, a2, fb, b)) {
    vp_cover(4);
    if (valid) vp_assert(rc == 0 && c == a, "simplifiesToFirstArg implies apply(a,b) == a");
    else vp_assert(0, "short cut 'result is the first argument' fires where the scalar case is invalid (division by zero must raise)");
  }
  a2 = a; b2 = b;
  if (POL<long>::simplifiesToSecondArg(0, fa, a, fb, b2)) {
    vp_cover(5);
    vp_assert(rc == 0 && c == b, "simplifiesToSecondArg implies apply(a,b) == b");
  }
  if (POL<long>::stopOnEqualArgs() && a == b) {
    vp_cover(6);
#if OP != 5 && OP != 6 && OP != 7   /* max/min/distmin copy the argument through the COPY operation */
    edge_value cv; node_handle ce = 777;
    POL<long>::makeEqualResult(0, 0, fa, a, fc, cv, ce, nullptr);
    if (valid) vp_assert(rc == 0 && ce == c, "x op x short cut (makeEqualResult) equals apply(x,x)");
    else vp_assert(0, "short cut 'x op x' returns a value where the scalar case is invalid (division by zero must raise)");
#else
    vp_assert(rc == 0 && c == a, "x op x == x for max/min/distmin");
#endif
  }
#ifndef NO_COMMUTE
  if (POL<long>::commutes()) {
    node_handle d = 777;
    int rc2 = do_apply< POL<long> >(fb, b, fa, a, fc, d);
    vp_assert(rc2 == rc && (rc != 0 || d == c), "commutes() implies apply(a,b) == apply(b,a)");
  }
#endif
  vp_reach();
}

static inline bool is_nan_bits(unsigned u) { return (u & 0x7f800000u) == 0x7f800000u && (u & 0x007fffffu) != 0; }
static inline bool is_inf_bits(unsigned u) { return (u & 0x7fffffffu) == 0x7f800000u; }

static bool spec_float(float a, float b, float &c) {
  switch (OP) {
    case OP_PLUS: c = a + b; return true;
    case OP_MINUS: c = a - b; return true;
    case OP_MULT: c = a * b; return true;
    case OP_DIV: if (b == 0) return false; c = a / b; return true;
    case OP_MAX: c = a > b ? a : b; return true;
    case OP_MIN: c = a < b ? a : b; return true;
    default:
      if (a < 0) c = (b < 0) ? (a < b ? a : b) : b;
      else c = (b < 0) ? a : (a < b ? a : b);
      return true;
  }
}

#if OP != 4
extern "C" void c05_mt_real()
{
  forest* fa = forest_record(false, range_type::REAL, edge_labeling::MULTI_TERMINAL, reduction_rule::FULLY_REDUCED, edge_type::VOID, terminal_type::REAL);
  forest* fb = fa; forest* fc = fa;
  // operands are terminals, i.e. floats that already went through the handle encoding
  node_handle a = vp_nondet_i32(), b = vp_nondet_i32();
  vp_assume((a == 0 || a < 0) && a != (node_handle) 0x80000000 && (b == 0 || b < 0) && b != (node_handle) 0x80000000);
  float va, vb; fa->getValueFromHandle(a, va); fb->getValueFromHandle(b, vb);
  unsigned ua = vp_f32_bits(va), ub = vp_f32_bits(vb);
  vp_assume(!is_nan_bits(ua) && !is_nan_bits(ub) && !is_inf_bits(ua) && !is_inf_bits(ub));
  // handles produced by the encoder never decode to zero (fixed defect, see known_findings.txt)
  vp_assume((a == 0) == (va == 0) && (b == 0) == (vb == 0));
  node_handle c = 777;
  int rc = do_apply< POL<float> >(fa, a, fb, b, fc, c);
  float expect; bool valid = spec_float(va, vb, expect);
  if (!valid) {
    vp_cover(1);
    vp_assert(rc == 1 + int(error::DIVIDE_BY_ZERO), "real division by zero raises DIVIDE_BY_ZERO");
  } else {
    vp_assert(rc == 0, "valid real case returns a value");
    if (expect == expect) {   // not NaN (inf - inf, 0 * inf cannot arise from finite operands except overflow to inf)
      vp_cover(2);
      node_handle he = fc->handleForValue(expect);
      vp_assert(c == he, "MT real apply returns the terminal of the single-precision scalar result");
    }
  }
  node_handle a2 = a, b2 = b;
  if (POL<float>::simplifiesToFirstArg(0, fa, a2, fb, b)) {
    vp_cover(4);
    if (valid) vp_assert(rc == 0 && c == a, "simplifiesToFirstArg implies apply(a,b) == a (real)");
    else vp_assert(0, "short cut 'result is the first argument' fires where the scalar case is invalid (division by zero must raise)");
  }
  if (POL<float>::simplifiesToSecondArg(0, fa, a, fb, b2)) { vp_cover(5); vp_assert(rc == 0 && c == b, "simplifiesToSecondArg implies apply(a,b) == b (real)"); }
  if (POL<float>::stopOnEqualArgs() && a == b) {
    vp_cover(6);
#if OP != 5 && OP != 6 && OP != 7
    edge_value cv; node_handle ce = 777;
    POL<float>::makeEqualResult(0, 0, fa, a, fc, cv, ce, nullptr);
    if (valid) vp_assert(rc == 0 && ce == c, "x op x short cut equals apply(x,x) (real)");
    else vp_assert(0, "short cut 'x op x' returns a value where the scalar case is invalid (division by zero must raise)");
#else
    vp_assert(rc == 0 && c == a, "x op x == x for max/min/distmin (real)");
#endif
  }
  if (POL<float>::commutes()) {
    node_handle d = 777;
    int rc2 = do_apply< POL<float> >(fb, b, fa, a, fc, d);
    vp_assert(rc2 == rc && (rc != 0 || d == c), "commutes() implies symmetric apply (real)");
  }
  vp_reach();
}
#endif


// ---------------------------------------------------------------- level-aware short cuts
// The short-cut predicates receive the level L at which the operands are met.  A terminal t met
// at a level L > 0 denotes, below that level, the constant t in a fully/quasi-reduced forest,
// but in an identity-reduced relation forest it denotes t on the diagonal and 0 off the
// diagonal (skipped levels are identity patterns).  Soundness of "result is the first/second
// argument" is therefore judged at a symbolic point kind (diagonal / off-diagonal), with the
// reduction rules of the two operand forests chosen independently.
static reduction_rule any_rule() {
  unsigned k = vp_range(0, 2);
  return k == 0 ? reduction_rule::FULLY_REDUCED : k == 1 ? reduction_rule::QUASI_REDUCED : reduction_rule::IDENTITY_REDUCED;
}
extern "C" void c05_mt_long_levels()
{
  forest* fa = forest_record(true, range_type::INTEGER, edge_labeling::MULTI_TERMINAL, any_rule(), edge_type::VOID, terminal_type::INTEGER);
  forest* fb = forest_record(true, range_type::INTEGER, edge_labeling::MULTI_TERMINAL, any_rule(), edge_type::VOID, terminal_type::INTEGER);
  node_handle a = vp_nondet_i32(), b = vp_nondet_i32();
  vp_assume((a == 0 || a < 0) && a != (node_handle) 0x80000000 && (b == 0 || b < 0) && b != (node_handle) 0x80000000);
  long ta, tb; fa->getValueFromHandle(a, ta); fb->getValueFromHandle(b, tb);
  int L = (int) vp_range(0, 2);
  bool diag = vp_nondet_bool();
  // value of each operand at the chosen point
  long va = (fa->isIdentityReduced() && L != 0 && !diag) ? 0 : ta;
  long vb = (fb->isIdentityReduced() && L != 0 && !diag) ? 0 : tb;
#ifdef VBITS
  vp_assume(ta >= -(1L << (VBITS-1)) && ta < (1L << (VBITS-1)) && tb >= -(1L << (VBITS-1)) && tb < (1L << (VBITS-1)));
#endif
  long expect; bool valid = spec_long(va, vb, expect);
  node_handle a2 = a, b2 = b;
  if (POL<long>::simplifiesToFirstArg(L, fa, a2, fb, b)) {
    vp_cover(1);
    if (valid) vp_assert(expect == va, "level-aware: 'result is the first argument' holds at every point below level L");
    else vp_assert(0, "short cut 'result is the first argument' fires where the scalar case is invalid (division by zero must raise)");
    if (fa->isIdentityReduced() && L != 0) vp_cover(3);
  }
  a2 = a; b2 = b;
  if (POL<long>::simplifiesToSecondArg(L, fa, a, fb, b2)) {
    vp_cover(2);
    if (valid) vp_assert(expect == vb, "level-aware: 'result is the second argument' holds at every point below level L");
    else vp_assert(0, "short cut 'result is the second argument' fires where the scalar case is invalid (division by zero must raise)");
  }
  vp_reach();
}
