// C01 / C02 L2-real: edge-value normalisation in forest::createReducedNode on a REAL EV+ forest
// (fixture_forest.h, FKIND=3: evmdd_pluslong over 2 variables of size 2).  The node structure is
// concrete (all children are the omega-normal terminal or a node built before), so every chunk
// size is concrete; the EDGE VALUES are symbolic 64-bit integers (|v| < 2^40).
//   * a level-1 node with edge values (a, b) and one with (a+c, b+c) reduce to the SAME node and
//     the returned edge values differ by exactly c (canonical representative);
//   * the stored node has minimum edge value 0 and reads back (getDownPtr with edge values) as
//     (a - min, b - min); evaluation root value + child value reproduces a and b;
//   * nodes whose normalised values differ are different nodes;
//   * the same holds one level up, over two level-1 nodes.
#include "fixture_forest.h"
using namespace MEDDLY;
static forest* F;
static long any_val() { long v = (long) vp_nondet_u64(); vp_assume(v > -(1L << 40) && v < (1L << 40)); return v; }

static void build1(long a, long b, edge_value &ev, node_handle &n) {
  unpacked_node* u = unpacked_node::newWritable(F, 1, FULL_ONLY);
  u->setFull(0, edge_value(a), OMEGA_NORMAL);
  u->setFull(1, edge_value(b), OMEGA_NORMAL);
  n = 0;
  F->createReducedNode(u, ev, n);
}
static void build2(long a, node_handle c0, long b, node_handle c1, edge_value &ev, node_handle &n) {
  unpacked_node* u = unpacked_node::newWritable(F, 2, FULL_ONLY);
  u->setFull(0, edge_value(a), c0);
  u->setFull(1, edge_value(b), c1);
  n = 0;
  F->createReducedNode(u, ev, n);
}

extern "C" void c01_evnorm()
{
  fixture X = make_fixture(); F = X.f;
  long a = any_val(), b = any_val(), c = any_val();
  vp_assume(a != b);                       // a == b is the redundant node (eliminated in a fully reduced forest)
  edge_value e1, e2, e3; node_handle n1, n2, n3;
  build1(a, b, e1, n1);
  build1(a + c, b + c, e2, n2);
  vp_assert(n1 > 0 && n1 == n2, "nodes whose edge values differ by a constant are the same node");
  vp_assert(long(e2) - long(e1) == c, "the constant is factored out into the returned edge value");
  long mn = a < b ? a : b;
  vp_assert(long(e1) == mn, "the returned edge value is the minimum (canonical representative has minimum 0)");
  edge_value d0, d1; node_handle p0, p1;
  F->getDownPtr(n1, 0, d0, p0); F->getDownPtr(n1, 1, d1, p1);
  vp_assert(p0 == OMEGA_NORMAL && p1 == OMEGA_NORMAL && long(d0) == a - mn && long(d1) == b - mn, "stored edge values are normalised and denote the function");
  if (a < b) vp_cover(1); else vp_cover(2);
  // a node with a different normalised shape is a different node
  long d = any_val();
  vp_assume(d != a && d != b);
  build1(a, d, e3, n3);
  bool same_shape = (a - (a < d ? a : d) == a - mn) && (d - (a < d ? a : d) == b - mn);
  vp_assert((n3 == n1) == same_shape, "nodes are equal iff their normalised edge values are equal");
  // one level up: children n1 (function A) and n3 (function B) with symbolic edge values
  long x = any_val(), y = any_val();
  edge_value r1, r2; node_handle q1, q2;
  build2(x, F->linkNode(n1), y, F->linkNode(n3), r1, q1);
  build2(x + c, F->linkNode(n1), y + c, F->linkNode(n3), r2, q2);
  vp_assert(q1 == q2 && long(r2) - long(r1) == c, "normalisation is canonical one level up as well");
  if (n1 != n3) {
    long m2 = x < y ? x : y;
    vp_assert(long(r1) == m2, "root edge value is the minimum over the children");
    vp_assert(F->getNodeLevel(q1) == 2, "distinct children: the level-2 node is kept");
    vp_cover(3);
  }
  vp_reach();
}
