// C18 L2: memory managers driven through their public interface for a bounded
// symbolic history (operation kind, size and victim are nondet at every step),
// starting from the real style::initManager().
// -DSTYLE=array_grid_style|orig_grid_style|heap_style|freelist_style  -DGRAN=2|4|8
// -DK=<steps> -DS=<max chunk size> -DMINSZ=<min chunk size>
// Shadow model: structure-of-arrays, constant-index loops only.
#include "vp.h"
#include "defines.h"
#include "memory.h"
#include "memstats.h"
#include "memory_managers/array_grid.h"
#include "memory_managers/orig_grid.h"
#ifdef HEAP_INTERNALS
#define private public
#define protected public
#include "memory_managers/heap_manager.cc"      /* the heap manager class lives in the .cc file */
#undef private
#undef protected
#else
#include "memory_managers/heap_manager.h"
#endif
#include "memory_managers/freelists.h"
#include "memory_managers/malloc_style.h"
using namespace MEDDLY;

#ifndef K
#define K 3
#endif
#ifndef S
#define S 8
#endif
#ifndef MINSZ
#define MINSZ 4
#endif
#ifndef GRAN
#define GRAN 4
#endif
#ifndef STYLE
#define STYLE array_grid_style
#endif
#ifndef PRE
#define PRE 0      // shaped prefix: allocate PRE chunks first, then recycle a nondet subset
#endif
#define MAXLIVE (K + PRE)

#if GRAN == 2
typedef short slot_t;
#elif GRAN == 4
typedef int slot_t;
#else
typedef long slot_t;
#endif

static node_address sh_h[MAXLIVE]; static size_t sh_n[MAXLIVE];
static slot_t sh_f[MAXLIVE], sh_l[MAXLIVE], sh_m[MAXLIVE]; static size_t sh_mi[MAXLIVE];
static bool sh_live[MAXLIVE];
static memory_manager* mm;
static bool msbF, msbL;

static slot_t nondet_slot(bool clearMSB) {
  slot_t v = (slot_t) vp_nondet_u64();
  if (clearMSB) vp_assume(v >= 0);
  return v;
}

static void check_chunk(int i, const char* which) {
  slot_t* c = (slot_t*) mm->getChunkAddress(sh_h[i]);
  vp_assert(c[0] == sh_f[i], "first slot of a live chunk is never altered by the manager");
  vp_assert(c[sh_n[i]-1] == sh_l[i], "last slot of a live chunk is never altered by the manager");
  vp_assert(c[sh_mi[i]] == sh_m[i], "interior slot of a live chunk is never altered by the manager");
}

static void do_request(size_t want = 0) {
  // scripted requests (shaped start states) have a fixed size, fixed boundary slots (MSB clear; the manager only ever
  // tests the MSB of a neighbour's boundary slot) and one symbolic interior slot, so that the start state is a constant
  // for symbolic execution; free requests are symbolic in size, contents and the position of the interior slot
  const bool scripted = (want != 0);
  if (want == 0) want = vp_range(MINSZ, S);
  size_t got = want;
  node_address h = mm->requestChunk(got);
  vp_assert(h != 0, "request succeeds (allocation failure is outside the model)");
  vp_assert(got >= want, "chunk at least as large as requested");
  vp_assert(mm->isValidHandle(h), "returned handle is valid");
  for (int i=0; i<MAXLIVE; i++) if (sh_live[i]) {
    vp_assert(h + got <= sh_h[i] || sh_h[i] + sh_n[i] <= h, "new chunk overlaps no live chunk");
  }
  slot_t* c = (slot_t*) mm->getChunkAddress(h);
  slot_t f = scripted ? slot_t(0x1111) : nondet_slot(msbF), l = scripted ? slot_t(0x2222) : nondet_slot(msbL), m = nondet_slot(false);
  size_t mi = scripted ? got / 2 : vp_range(0, S-1);
  vp_assume(mi < got);
  if (got == 1) { l = f; }
  if (mi == 0) m = f;
  if (mi == got-1) m = l;
  c[0] = f; c[got-1] = l; c[mi] = m;     // CBMC checks these writes stay inside the arena object
  bool placed = false;
  for (int i=0; i<MAXLIVE; i++) if (!placed && !sh_live[i]) {
    sh_h[i] = h; sh_n[i] = got; sh_f[i] = f; sh_l[i] = l; sh_m[i] = m; sh_mi[i] = mi; sh_live[i] = true; placed = true;
  }
  if (got > want) vp_cover(1);
}

static bool do_recycle(unsigned idx) {
  bool did = false;
  for (int i=0; i<MAXLIVE; i++) if (unsigned(i) == idx && sh_live[i]) {
    check_chunk(i, "recycle");
    mm->recycleChunk(sh_h[i], sh_n[i]);
    sh_live[i] = false; did = true;
  }
  return did;
}

// Bookkeeping lemmas behind "no overlap": what the manager records about holes lies inside the used part of the arena,
// and the manager itself reports every live chunk as in use (hole managers only; the other styles cannot tell).
static void bookkeeping_check() {
  if (msbF) for (int i=0; i<MAXLIVE; i++) if (sh_live[i])
    vp_assert(mm->isAddressInUse(sh_h[i]), "the manager reports a live chunk's address as in use");
#ifdef HEAP_INTERNALS
  heap_manager<slot_t>* H = (heap_manager<slot_t>*) mm;
  node_address last = H->getLastUsed();
  node_address ch = H->current_hole, hr = H->heap_root;
  if (ch) {
    vp_assert(ch >= 1 && ch <= last, "heap manager: the current hole starts inside the used part of the arena");
    if (ch >= 1 && ch <= last) vp_assert(H->isHole(ch) && ch + node_address(H->getHoleSize(ch)) - 1 <= last, "heap manager: the current hole is a marked hole ending inside the used part of the arena");
    vp_cover(6);
  }
  if (hr) {
    vp_assert(hr >= 1 && hr <= last, "heap manager: the heap root starts inside the used part of the arena");
    if (hr >= 1 && hr <= last) vp_assert(H->isHole(hr) && hr + node_address(H->getHoleSize(hr)) - 1 <= last, "heap manager: the heap root is a marked hole ending inside the used part of the arena");
    vp_assert(H->num_heap_nodes >= 1, "heap manager: a non-empty heap has a positive node count");
  } else vp_assert(H->num_heap_nodes == 0, "heap manager: an empty heap has node count 0");
#endif
}

#ifdef SCRIPT
// shaped start state: a fixed script (n > 0: request n slots; -k: recycle the k-th chunk requested) puts the manager into a
// state that a free history of K steps does not reach (split holes, a partly used current hole, several holes), then K nondet steps
extern "C" void c18_shaped()
{
  static const int script[] = { SCRIPT };
  memstats ms;
  STYLE st("style");
  mm = st.initManager(GRAN, MINSZ, ms);
  vp_assert(mm != nullptr, "manager created for this granularity");
  msbF = mm->firstSlotMustClearMSB(); msbL = mm->lastSlotMustClearMSB();
  for (int i=0; i<MAXLIVE; i++) sh_live[i] = false;
  for (unsigned i=0; i<sizeof(script)/sizeof(int); i++) {
    if (script[i] > 0) do_request(size_t(script[i])); else do_recycle(unsigned(-script[i]-1));
    bookkeeping_check();
  }
  int recycles = 0, reuse = 0;
  for (int step=0; step<K; step++) {
    if (vp_nondet_bool()) { do_request(); if (recycles > 0) reuse++; }
    else { if (do_recycle(vp_range(0, MAXLIVE-1))) recycles++; }
    bookkeeping_check();
  }
  for (int i=0; i<MAXLIVE; i++) if (sh_live[i]) check_chunk(i, "end");
  if (recycles > 0) vp_cover(2);
  if (reuse > 0) vp_cover(3);
  vp_reach();
}
#endif

#ifndef MALLOC_ONLY
extern "C" void c18_history()
{
  memstats ms;
  STYLE st("style");
  mm = st.initManager(GRAN, MINSZ, ms);
  vp_assert(mm != nullptr, "manager created for this granularity");
  msbF = mm->firstSlotMustClearMSB(); msbL = mm->lastSlotMustClearMSB();
  for (int i=0; i<MAXLIVE; i++) sh_live[i] = false;
  // shaped prefix (thorough): PRE allocations, then a nondet subset recycled in nondet order
  for (int i=0; i<PRE; i++) do_request();
  for (int i=0; i<PRE; i++) { if (vp_nondet_bool()) do_recycle(vp_range(0, MAXLIVE-1)); }
  int recycles = 0, reuse = 0;
  for (int step=0; step<K; step++) {
    if (vp_nondet_bool()) {
      do_request();
      if (recycles > 0) reuse++;
    } else {
      if (do_recycle(vp_range(0, MAXLIVE-1))) recycles++;
    }
    bookkeeping_check();
  }
  for (int i=0; i<MAXLIVE; i++) if (sh_live[i]) check_chunk(i, "end");
  if (recycles > 0) vp_cover(2);
  if (reuse > 0) vp_cover(3);
  if (recycles >= 2) vp_cover(4);
  vp_reach();
}
#endif

// malloc_style: handle = pointer value; only the bookkeeping is the manager's own
// (size in bytes = slots * granularity, handle validity, free on recycle).
// getChunkAddress() adds the handle to a NULL base, which CBMC's object/offset pointer
// model cannot represent, so the chunk is addressed through the handle itself here.
extern "C" void c18_malloc()
{
  memstats ms;
  malloc_style st("malloc");
  memory_manager* m = st.initManager(GRAN, MINSZ, ms);
  vp_assert(m != nullptr, "manager created");
  vp_assert(m->mustRecycleManually(), "malloc style does not track chunks");
  vp_assert(!m->firstSlotMustClearMSB() && !m->lastSlotMustClearMSB(), "no slot restrictions");
  size_t w1 = vp_range(1, S), w2 = vp_range(1, S);
  size_t g1 = w1, g2 = w2;
  node_address h1 = m->requestChunk(g1), h2 = m->requestChunk(g2);
  vp_assert(h1 != 0 && h2 != 0 && h1 != h2, "distinct non-null handles");
  vp_assert(g1 >= w1 && g2 >= w2, "sizes not reduced");
  vp_assert(m->isValidHandle(h1) && m->isValidHandle(h2), "handles valid");
  slot_t* c1 = (slot_t*) h1; slot_t* c2 = (slot_t*) h2;
  slot_t a = (slot_t) vp_nondet_u64(), b = (slot_t) vp_nondet_u64();
  c1[0] = a; c1[w1-1] = a;            // CBMC bounds checks: w1*GRAN bytes must be addressable
  c2[0] = b; c2[w2-1] = b;
  vp_assert(c1[0] == a && c1[w1-1] == a, "chunk 1 unaffected by writes to chunk 2");
  if (vp_nondet_bool()) {
    m->recycleChunk(h1, g1);
    vp_assert(c2[0] == b && c2[w2-1] == b, "chunk 2 intact after recycling chunk 1");
    size_t g3 = w1; node_address h3 = m->requestChunk(g3);
    vp_assert(h3 != 0 && h3 != h2, "re-request does not alias the live chunk");
    ((slot_t*) h3)[w1-1] = a;
    vp_assert(c2[0] == b && c2[w2-1] == b, "chunk 2 intact after writing the new chunk");
    m->recycleChunk(h3, g3);
    vp_cover(1);
  } else {
    m->recycleChunk(h1, g1);
  }
  m->recycleChunk(h2, g2);
  vp_reach();
}

// Arena growth: the initial arena (hook H1) is 16 slots; a script of three requests with
// compile-time sizes (-DS1 -DS2 -DS3; symbolic sizes made every realloc symbolic-sized: 11 GB) forces the backing array to grow (realloc) at the second or third
// request.  Every chunk must stay addressable over its whole length (CBMC bounds checks on the
// writes to the first and last slot) and keep its contents across the reallocation.
#ifndef MALLOC_ONLY
#ifndef S1
#define S1 4
#define S2 14
#define S3 20
#endif
extern "C" void c18_growth()
{
  memstats ms;
  STYLE st("style");
  mm = st.initManager(GRAN, MINSZ, ms);
  vp_assert(mm != nullptr, "manager created");
  msbF = mm->firstSlotMustClearMSB(); msbL = mm->lastSlotMustClearMSB();
  node_address h[3]; size_t n[3]; slot_t f[3], l[3];
  const size_t script[3] = { S1, S2, S3 };     // compile-time sizes: every realloc size is concrete
  for (int i = 0; i < 3; i++) {
    size_t want = script[i];
    size_t got = want;
    h[i] = mm->requestChunk(got);
    vp_assert(h[i] != 0 && got >= want, "request succeeds with at least the requested size");
    vp_assert(mm->isValidHandle(h[i]) && mm->isValidHandle(h[i] + got - 1), "every slot of the chunk has a valid handle");
    n[i] = got;
    for (int j = 0; j < i; j++) vp_assert(h[i] + got <= h[j] || h[j] + n[j] <= h[i], "new chunk overlaps no live chunk");
    slot_t* c = (slot_t*) mm->getChunkAddress(h[i]);
    f[i] = nondet_slot(msbF); l[i] = nondet_slot(msbL);
    c[0] = f[i]; c[got-1] = l[i];                // must be inside the (possibly regrown) array
    for (int j = 0; j <= i; j++) {
      slot_t* d = (slot_t*) mm->getChunkAddress(h[j]);
      vp_assert(d[0] == f[j] && d[n[j]-1] == l[j], "contents of live chunks survive arena growth");
    }
  }
  vp_assert(S1 < 8, "script starts with a small request so that the initial arena is the 16-slot one (hook H1)");
  if (h[1] + n[1] > 16 && h[2] + n[2] > h[1] + n[1]) vp_cover(1);   // the arena had to grow twice beyond its initial 16 slots
  vp_reach();
}
#endif
