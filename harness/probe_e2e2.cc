#include "vp.h"
#include "meddly.h"
#include "memory_managers/init_managers.h"
#include "storage/init_storage.h"
#include "init_forests.h"
using namespace MEDDLY;
extern "C" void probe_e2e2()
{
    initializer_list* L = nullptr;
    L = new memman_initializer(L);
    L = new ct_initializer(L);
    L = new storage_initializer(L);
    L = new forest_initializer(L);
    MEDDLY::initialize(L);
    int bounds[2] = {2, 2};
    domain* d = domain::createBottomUp(bounds, 2);
    forest* f = forest::create(d, SET, range_type::BOOLEAN, edge_labeling::MULTI_TERMINAL);
    dd_edge e(f);
    f->createConstant(rangeval(true), e);
    vp_assert(e.getNode() != 0, "const true");
    vp_reach();
}
