// C04 L1: terminal cases and short cuts of the set operations (real operations/union.cc, intersection.cc,
// difference.cc, included into this TU), for every combination of reduction rules of the two operand forests
// and the result forest (sets: fully / quasi; relations: fully / quasi / identity), same or different forests,
// every recursion level L and incoming index.  The operation object is built by its real constructor (which
// derives the by-levels / identity-pattern flags from the forests); the recursion proper is cut (the first
// thing it does is allocate a compute-table key: ct_vector's constructor is a stand-in that assumes false).
//
// Judged pointwise at one arbitrary assignment x of the domain.  What an edge (level L, node p) of a forest
// denotes at x:
//   p == 0                         false
//   p terminal true                true   if L == 0 or the forest is fully reduced
//                                  diag   if the forest is identity reduced (diag: x lies on the diagonal of
//                                         all skipped levels, x'_k == x_k, resp. x'_k == in for a primed L)
//                                  (quasi reduced forests have no long edges to true: assumed for operands,
//                                   asserted for the result)
//   p non-terminal                 an arbitrary boolean (a for A, b for B; the same when A == B in one forest)
// Stand-ins (same code in the symbolic and the concrete build):
//   COPY operation                 result is a fresh handle denoting what its argument denotes (C10's subject)
//   forest::_makeRedundantsTo      fresh handle denoting the constant value of the terminal below
//   forest::_makeIdentitiesTo      fresh handle denoting  terminal value AND diag
//   operation / binary_operation / unary_operation constructors: set the forests only (registries: C17)
#include "forest_record.h"
#define private public
#define protected public
#ifndef OP
#define OP 0
#endif
#if OP == 0
#include "operations/union.cc"
#define OPCLASS union_mt
#elif OP == 1
#include "operations/intersection.cc"
#define OPCLASS inter_mt
#elif OP == 2
#include "operations/difference.cc"
#define OPCLASS diffr_mt
#else
#include "operations/complement.cc"       /* unary: NOT A; the complemented identity pattern (nodes are built) is cut */
#define OPCLASS compl_mt
#endif
#undef private
#undef protected
using namespace MEDDLY;

#define MAXL 3
enum { HA = 5, HB = 6, H0 = 10, HN = 8 };     // operand nodes; handles made by the stand-ins are H0 .. H0+HN-1
static bool made_den[HN]; static int n_made;
static forest *F1, *F2, *FR;
static bool va, vb, diag;
static int curL;

static node_handle fresh(bool den) {
  vp_assume(n_made < HN);
  made_den[n_made] = den;
  return H0 + n_made++;
}
static bool well_formed(const forest* f, node_handle p, int L) {
  // a bare terminal true under a quasi-reduced rule exists only at level 0
  return !(p < 0 && L != 0 && f->isQuasiReduced());
}
static bool den_of(const forest* f, node_handle p, int L) {
  if (p == 0) return false;
  if (p < 0) return (L == 0 || f->isFullyReduced()) ? true : (f->isIdentityReduced() ? diag : true);
  if (p >= H0 && p < H0 + HN) { bool r = false; for (int i = 0; i < HN; i++) if (p == H0 + i) r = made_den[i]; return r; }
  if (p == HA && f == F1) return va;
  if (p == HB && f == F2) return vb;
  if (p == HA) return va;     // (same forest, swapped by the commutative reorder)
  return vb;
}

// ---------------------------------------------------------------- stand-ins
MEDDLY::operation::operation() { name = nullptr; }
MEDDLY::operation::~operation() { }
MEDDLY::binary_operation::binary_operation(forest* a1, forest* a2, forest* r) : operation() { arg1F = a1; arg2F = a2; resF = r; }
MEDDLY::binary_operation::~binary_operation() { }
MEDDLY::unary_operation::unary_operation(forest* a, forest* r) : operation() { argF = a; resF = r; factory = nullptr; next = nullptr; }
MEDDLY::unary_operation::~unary_operation() { }
bool MEDDLY::unary_factory::mtfUnary(const forest*, const forest*) { return false; }
void MEDDLY::unary_factory::searchRemove(unary_operation*) { }

class copy_standin : public unary_operation {
  public:
    copy_standin(forest* a, forest* r) : unary_operation(a, r) { }
    virtual void compute(int L, unsigned in, const edge_value &av, node_handle ap, edge_value &cv, node_handle &cp) {
      vp_assert(L == curL, "terminal-case copies are made at the level of the call");
      cp = (ap == 0) ? 0 : fresh(den_of(argF, ap, L));
      cv.set();
    }
};
class copy_factory_standin : public unary_factory {
  public:
    virtual void setup() { }
    virtual unary_operation* build_new(forest* a, forest* r) { return new copy_standin(a, r); }
};
static copy_factory_standin the_copy_factory;
MEDDLY::unary_factory& MEDDLY::COPY() { return the_copy_factory; }

MEDDLY::node_handle MEDDLY::forest::_makeRedundantsTo(node_handle p, int K, int L)
{
  vp_assert(K == 0 && p < 0, "terminal cases chain from a terminal at level 0");
  return fresh(true);
}
MEDDLY::node_handle MEDDLY::forest::_makeIdentitiesTo(node_handle p, int K, int L, int in)
{
  vp_assert(K == 0 && p < 0, "terminal cases chain from a terminal at level 0");
  return fresh(L == 0 ? true : diag);
}
// the recursion starts by allocating a compute-table key: everything from there on is outside this check
static OPCLASS* the_op; static node_handle curA, curB;
MEDDLY::ct_vector::ct_vector(unsigned sz) : _size(sz)
{
  data = nullptr;
#if OP != 3
  // ... but it must not be entered at level 0: there is no node to unpack there, so operands that are both
  // terminals have to be answered by a terminal case (the level is the operation's own topLevelOf)
  int la = the_op->arg1F->getNodeLevel(curA), lb = the_op->arg2F->getNodeLevel(curB);
  vp_assert(the_op->topLevelOf(curL, la, lb) != 0, "the recursion is entered only at a level that has nodes (terminal operands are answered by a terminal case)");
  vp_cover(4);
#endif
  vp_assume(false);
}
MEDDLY::ct_vector::~ct_vector() { }
#if OP == 3
// complement of an identity pattern builds nodes: outside this check
MEDDLY::unpacked_node* MEDDLY::unpacked_node::newWritable(forest*, int, unsigned, node_storage_flags) { vp_assume(false); return nullptr; }
MEDDLY::unpacked_node* MEDDLY::unpacked_node::newWritable(forest*, int, node_storage_flags) { vp_assume(false); return nullptr; }
#endif

static reduction_rule any_rule(bool rel) {
  unsigned r = vp_range(0, rel ? 2 : 1);
  return r == 0 ? reduction_rule::FULLY_REDUCED : r == 1 ? reduction_rule::QUASI_REDUCED : reduction_rule::IDENTITY_REDUCED;
}
static forest* bool_forest(bool rel, reduction_rule rr, domain* d, unsigned id) {
  forest* f = forest_record(rel, range_type::BOOLEAN, edge_labeling::MULTI_TERMINAL, rr, edge_type::VOID, terminal_type::BOOLEAN);
  f->d = d; f->fid = id;
  memstats* ms = new memstats; statset* ss = new statset;
  new (&f->nodeHeaders) node_headers(*f, *ms, *ss);
  f->nodeHeaders.initialize();
  f->nodeHeaders.levels->expand(8);
  f->nodeHeaders.a_size = 8;
  return f;
}

extern "C" void c04_setops()
{
  bool rel = vp_nondet_bool();
  domain* d = (domain*) calloc(1, sizeof(domain)); d->nVars = MAXL;
  bool same12 = vp_nondet_bool(), sameR1 = vp_nondet_bool();
  F1 = bool_forest(rel, any_rule(rel), d, 1);
  F2 = same12 ? F1 : bool_forest(rel, any_rule(rel), d, 2);
  FR = sameR1 ? F1 : bool_forest(rel, any_rule(rel), d, 3);
  // the real constructor: compatibility checks, COPY operations, by-levels / identity-pattern flags, entry types
  compute_table::Monolithic_CT = (compute_table*) calloc(1, 64);      // buildCT() then only records the pointer
#if OP == 3
  OPCLASS* op = new OPCLASS(F1, FR);
#else
  OPCLASS* op = new OPCLASS(F1, F2, FR);
#endif

  // operands: 0, terminal true, or a non-terminal node
  unsigned ka = vp_range(0, 2), kb = vp_range(0, 2);
  node_handle A = ka == 0 ? 0 : ka == 1 ? -1 : HA;
  node_handle B = kb == 0 ? 0 : kb == 1 ? -1 : (same12 && vp_nondet_bool() ? HA : HB);
  int L = int(vp_range(0, rel ? 2 * MAXL : MAXL)); if (rel && L > MAXL) L = MAXL - L;   // relations: also primed levels -1..-MAXL
  unsigned in = vp_nondet_bool() ? ~0u : vp_range(0, 2);
  va = vp_nondet_bool(); vb = vp_nondet_bool(); diag = vp_nondet_bool();
  if (L == 0) { diag = true; vp_assume(ka != 2 && kb != 2); }     // below level 0 there are only terminals
  if (A == B && F1 == F2) vb = va;
  vp_assume(well_formed(F1, A, L) && well_formed(F2, B, L));
  // levels of the non-terminal operands (below L), read by the recursion only
  int la = int(vp_range(1, MAXL)), lb = int(vp_range(1, MAXL));
  F1->nodeHeaders.setNodeLevel(HA, la); F2->nodeHeaders.setNodeLevel(HB, lb); if (F1 == F2) F1->nodeHeaders.setNodeLevel(HA, la);
  curL = L; n_made = 0; the_op = op; curA = A; curB = B;

  node_handle C = 777;
#if OP == 3
  op->_compute(L, in, A, C);
#else
  op->_compute(L, in, A, B, C);
#endif

  // a terminal case answered
  vp_cover(1);
  bool da = den_of(F1, A, L), db = den_of(F2, B, L);
  bool want = (OP == 0) ? (da || db) : (OP == 1) ? (da && db) : (OP == 2) ? (da && !db) : !da;
  vp_assert(C == 0 || C == -1 || (C >= H0 && C < H0 + n_made), "the terminal case returns a terminal or a node built for the result forest");
  vp_assert(well_formed(FR, C, L), "a quasi-reduced result above level 0 is not a bare terminal");
  vp_assert(den_of(FR, C, L) == want, "terminal case / short cut of the set operation is the pointwise boolean operation under the forests' reduction rules");
  if (C > 0) vp_cover(2);
  if (diag == false && F1->isIdentityReduced()) vp_cover(3);
  vp_reach();
}
