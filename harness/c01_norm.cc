// C01 L1: edge-value normalisation to a canonical representative - the template helpers
// normalize_evplus<long> / normalize_evstar<float> of the real forest.cc (included into this TU),
// applied to a real unpacked_node (full, size 3) over a forest record.  Children are symbolic
// handles (0 = transparent child, anything else = a child), edge values symbolic.
//   EV+: returned value = minimum over the non-transparent children, stored values = old - min
//        (so the minimum is 0), transparent children get the canonical value 0, nnz is exact;
//        shifting every value by a constant c changes only the returned value (by c).
//   EV*: returned value = first non-transparent child's value, which becomes exactly 1;
//        the other values are old / first.
#include "forest_record.h"
#include "forest.cc"
using namespace MEDDLY;
#define NSZ 3
static long any_val() { long v = (long) vp_nondet_u64(); vp_assume(v > -(1L << 60) && v < (1L << 60)); return v; }

extern "C" void c01_norm_evplus()
{
  forest* F = forest_record(false, range_type::INTEGER, edge_labeling::EVPLUS, reduction_rule::FULLY_REDUCED, edge_type::LONG, terminal_type::OMEGA);
  F->transparent_node = OMEGA_INFINITY; F->transparent_edge = edge_value(0L); F->hash_edge_values = true; F->fid = 1;
  node_handle dn[NSZ]; long v[NSZ]; long c = any_val();
  for (int i = 0; i < NSZ; i++) { dn[i] = (node_handle) vp_nondet_u32(); v[i] = any_val(); }
  unpacked_node u(F, FULL_ONLY), w(F, FULL_ONLY);
  u.setFull(); u.resize(NSZ); u.setLevel(1); w.setFull(); w.resize(NSZ); w.setLevel(1);
  for (unsigned i = 0; i < NSZ; i++) { u.setFull(i, edge_value(v[i]), dn[i]); w.setFull(i, edge_value(v[i] + c), dn[i]); }
  edge_value eu, ew; unsigned nu = 99, nw = 99;
  normalize_evplus<long>(u, eu, nu);
  normalize_evplus<long>(w, ew, nw);
  unsigned cnt = 0; long mn = 0; bool have = false;
  for (int i = 0; i < NSZ; i++) if (dn[i] != 0) { cnt++; if (!have || v[i] < mn) { mn = v[i]; have = true; } }
  vp_assert(nu == cnt && nw == cnt, "nnz counts the non-transparent children");
  if (cnt == 0) { vp_cover(1); vp_assert(long(eu) == 0, "all-transparent node normalises to value 0"); }
  else {
    vp_cover(2);
    vp_assert(long(eu) == mn, "returned edge value is the minimum over the non-transparent children");
    vp_assert(long(ew) - long(eu) == c, "shifting all values by c changes only the returned value, by c");
  }
  bool zero_seen = false;
  for (unsigned i = 0; i < NSZ; i++) {
    if (dn[i] == 0) { vp_assert(long(u.edgeval(i)) == 0 && long(w.edgeval(i)) == 0, "transparent children carry the canonical value 0"); }
    else {
      vp_assert(long(u.edgeval(i)) == v[i] - mn, "stored value is the old value minus the minimum");
      vp_assert(long(u.edgeval(i)) >= 0, "normalised values are non-negative");
      vp_assert(long(w.edgeval(i)) == long(u.edgeval(i)), "the normalised node does not depend on the constant (canonical representative)");
      if (long(u.edgeval(i)) == 0) zero_seen = true;
    }
    vp_assert(u.down(i) == dn[i], "children are not changed by normalisation");
  }
  if (cnt) vp_assert(zero_seen, "the minimum of the normalised values is 0");
  vp_reach();
}

static inline bool finite_nz(unsigned u) { return (u & 0x7f800000u) != 0x7f800000u && (u & 0x7fffffffu) != 0; }
extern "C" void c01_norm_evstar()
{
  forest* F = forest_record(false, range_type::REAL, edge_labeling::EVTIMES, reduction_rule::FULLY_REDUCED, edge_type::FLOAT, terminal_type::OMEGA);
  F->transparent_node = OMEGA_ZERO; F->transparent_edge = edge_value(0.0f); F->hash_edge_values = false; F->fid = 1;
  node_handle dn[NSZ]; float v[NSZ];
  for (int i = 0; i < NSZ; i++) {
    dn[i] = (node_handle) vp_nondet_u32();
    unsigned b = vp_nondet_u32(); vp_assume(finite_nz(b));      // edges to non-transparent children carry non-zero finite values
    union { unsigned u; float f; } x; x.u = b; v[i] = x.f;
  }
  unpacked_node u(F, FULL_ONLY);
  u.setFull(); u.resize(NSZ); u.setLevel(1);
  for (unsigned i = 0; i < NSZ; i++) u.setFull(i, edge_value(dn[i] ? v[i] : 0.0f), dn[i]);
  // read the values back through the real accessor so that the specification divides the same terms
  for (unsigned i = 0; i < NSZ; i++) { float t; u.edgeval(i).get(t); if (dn[i]) v[i] = t; }
  edge_value eu; unsigned nu = 99;
  normalize_evstar<float>(u, eu, nu);
  unsigned cnt = 0; int first = -1;
  for (int i = 0; i < NSZ; i++) if (dn[i] != 0) { if (first < 0) first = i; cnt++; }
  vp_assert(nu == cnt, "nnz counts the non-transparent children");
  if (cnt == 0) { vp_cover(1); vp_assert(float(eu) == 0.0f, "all-transparent node normalises to value 0"); }
  else {
    vp_cover(2);
    float fv = 0; for (int i = 0; i < NSZ; i++) if (i == first) fv = v[i];
    vp_assert(vp_f32_bits(float(eu)) == vp_f32_bits(fv), "returned edge value is the first non-transparent child's value");
    for (unsigned i = 0; i < NSZ; i++) {
      if (dn[i] == 0) vp_assert(float(u.edgeval(i)) == 0.0f, "transparent children carry the canonical value 0");
      else if ((int) i == first) vp_assert(float(u.edgeval(i)) == 1.0f, "the first non-transparent child is normalised to exactly 1");
      else vp_assert(vp_f32_bits(float(u.edgeval(i))) == vp_f32_bits(fv == 1.0f ? v[i] : v[i] / fv), "other children are divided by the first value");
    }
  }
  vp_reach();
}
