#include "vp.h"
#include "meddly.h"
using namespace MEDDLY;
extern "C" void probe_e2e()
{
    MEDDLY::initialize();
    int bounds[2] = {2, 2};
    domain* d = domain::createBottomUp(bounds, 2);
    forest* f = forest::create(d, SET, range_type::BOOLEAN, edge_labeling::MULTI_TERMINAL);
    dd_edge e(f);
    f->createConstant(rangeval(true), e);
    vp_assert(e.getNode() != 0, "const true");
    vp_reach();
}
