// C06 L2: node_headers (real node_headers.cc + arrays.cc) driven for a bounded symbolic
// history of the operations a forest performs on it.  The owning forest is a record
// whose deleteNode() is a stand-in defined here (records the call and performs the header
// effects of the real forest::deleteNode: address := 0, level := 0).
// -DPESS=0|1 (optimistic / pessimistic)  -DNSTEPS=<steps>
// Shadow per handle: state, incoming count, cache count.
#include "forest_record.h"
using namespace MEDDLY;

#ifndef NSTEPS
#define NSTEPS 5
#endif
#ifndef PESS
#define PESS 0
#endif
#define NHSIZE 8
#ifndef HMAX
#define HMAX 4
#endif
//           /* handles 1..HMAX-1 are tracked; more new nodes than that are not requested */

enum { UNUSED = 0, ACTIVE = 1, ZOMBIE = 2 /* deleted, handle kept because cached */ };
static int sh_state[HMAX]; static unsigned sh_in[HMAX], sh_cc[HMAX];
static int deleted_calls[HMAX]; static bool ever[HMAX];
static node_headers* NH;

// stand-in for forest.cc's definition (forest.cc is not linked into this harness)
void MEDDLY::forest::deleteNode(node_handle p)
{
  vp_assert(p >= 1 && p < HMAX, "deleteNode called with a tracked handle");
  for (int i = 1; i < HMAX; i++) if (i == p) {
    vp_assert(sh_state[i] == ACTIVE, "deleteNode only on an active node");
    vp_assert(sh_in[i] == 0, "deleteNode only when the incoming count is zero");
    deleted_calls[i]++;
  }
  NH->setNodeAddress(p, 0);
  NH->deactivate(p);
}

static void audit()
{
  for (int i = 1; i < HMAX; i++) {
    if (sh_state[i] == ACTIVE) {
      vp_assert(size_t(i) <= size_t(NH->lastUsedHandle()), "active handle is within lastUsedHandle()");
      vp_assert(NH->isActive(i), "shadow-active node is active in the headers");
      vp_assert(NH->getIncomingCount(i) == sh_in[i], "incoming count equals the number of links made minus unlinks");
      vp_assert(NH->getNodeCacheCount(i) == sh_cc[i], "cache count equals the number of cache references");
    } else if (sh_state[i] == ZOMBIE) {
      vp_assert(size_t(i) <= size_t(NH->lastUsedHandle()), "zombie handle is within lastUsedHandle()");
      vp_assert(NH->isDeleted(i), "deleted-but-cached node is marked deleted");
      vp_assert(NH->getNodeCacheCount(i) == sh_cc[i] && sh_cc[i] > 0, "zombie keeps its (positive) cache count");
    }
  }
}

extern "C" void c06_headers()
{
  domain* d = (domain*) calloc(1, sizeof(domain));
  d->nVars = 3;
  forest* f = forest_record(false, range_type::INTEGER, edge_labeling::MULTI_TERMINAL, reduction_rule::FULLY_REDUCED, edge_type::VOID, terminal_type::INTEGER);
  f->d = d;
  f->deflt.useReferenceCounts = true;
  f->deflt.deletion = PESS ? policies::node_deletion::PESSIMISTIC : policies::node_deletion::OPTIMISTIC;
  memstats ms; statset ss;
  node_headers H(*f, ms, ss);
  H.initialize();
  // handle arrays are created at a fixed size through the arrays' own expand(); growth and
  // shrinking of the handle list (expandHandleList / shrinkHandleList) are cut in this harness
  // (assume false): after a merge their sizes become symbolic, which CBMC cannot allocate.
  H.addresses->expand(NHSIZE); H.levels->expand(NHSIZE); H.cache_counts->expand(NHSIZE); H.incoming_counts->expand(NHSIZE);
  H.a_size = NHSIZE; H.a_next_shrink = 0;
  NH = &H;
  for (int i = 0; i < HMAX; i++) { sh_state[i] = UNUSED; sh_in[i] = 0; sh_cc[i] = 0; deleted_calls[i] = 0; ever[i] = false; }
  int created = 0;
  for (int step = 0; step < NSTEPS; step++) {
    unsigned op = vp_range(0, 4);
    unsigned p = vp_range(1, HMAX-1);
    for (int i = 1; i < HMAX; i++) deleted_calls[i] = 0;
    if (op == 0) {
      // new node, as forest::createReducedNode does it
      vp_assume(created < HMAX-1);
      node_handle h = H.getFreeNodeHandle();
      vp_assert(h >= 1 && h < HMAX, "fresh handle is positive and within the number of handles ever needed");
      for (int i = 1; i < HMAX; i++) if (i == h) {
        vp_assert(sh_state[i] == UNUSED, "getFreeNodeHandle returns only a handle that is unused or was recycled");
        vp_assert(H.getIncomingCount(h) == 0 && H.getNodeCacheCount(h) == 0, "fresh handle has zero incoming and cache counts");
        if (ever[i]) vp_cover(1);            // a recycled handle is handed out again
        ever[i] = true;
        sh_state[i] = ACTIVE; sh_in[i] = 1; sh_cc[i] = 0;
      }
      H.setNodeLevel(h, (int) vp_range(1, 3));
      H.linkNode(h);
      H.setNodeAddress(h, 100 + h);
      created++;
    } else {
      for (int i = 1; i < HMAX; i++) if (unsigned(i) == p) {
        if (op == 1) {          // link: active nodes only (optimistic unreachables may be revived)
          vp_assume(sh_state[i] == ACTIVE);
          H.linkNode(i); sh_in[i]++;
          if (sh_in[i] == 1) vp_cover(2);    // revival of an unreachable node
        } else if (op == 2) {   // unlink
          vp_assume(sh_state[i] == ACTIVE && sh_in[i] > 0);
          sh_in[i]--; H.unlinkNode(i);
          if (sh_in[i] == 0) {
            if (sh_cc[i] == 0) {
              vp_assert(deleted_calls[i] == 1, "last unlink of an uncached node deletes it at once");
              sh_state[i] = UNUSED; vp_cover(3);
            } else if (PESS) {
              vp_assert(deleted_calls[i] == 1, "pessimistic: last unlink deletes the node even if cached");
              sh_state[i] = ZOMBIE; vp_cover(4);
            } else {
              vp_assert(deleted_calls[i] == 0, "optimistic: a cached unreachable node is kept");
              vp_cover(5);
            }
          } else vp_assert(deleted_calls[i] == 0, "no deletion while references remain");
        } else if (op == 3) {   // compute table adds a reference (to an active node)
          vp_assume(sh_state[i] == ACTIVE);
          H.cacheNode(i); sh_cc[i]++;
        } else {                // compute table drops a reference
          vp_assume(sh_state[i] != UNUSED && sh_cc[i] > 0);
          sh_cc[i]--; H.uncacheNode(i);
          if (sh_cc[i] == 0) {
            if (sh_state[i] == ZOMBIE) { vp_assert(deleted_calls[i] == 0, "zombie is not deleted twice"); sh_state[i] = UNUSED; vp_cover(6); }
            else if (sh_in[i] == 0) { vp_assert(deleted_calls[i] == 1, "optimistic: last uncache of an unreachable node deletes it"); sh_state[i] = UNUSED; vp_cover(7); }
            else vp_assert(deleted_calls[i] == 0, "no deletion while incoming references remain");
          } else vp_assert(deleted_calls[i] == 0, "no deletion while cache references remain");
        }
      }
    }
    for (int i = 1; i < HMAX; i++) if (unsigned(i) != p || op == 0) vp_assert(deleted_calls[i] == 0 || op == 0, "no other node is deleted by this step");
    audit();
  }
  vp_reach();
}
