// C05 L1: EV* (float) scalar policies from the real operations/arith_*.cc.  An EV* terminal
// edge is (value v, node n): n == OMEGA_ZERO denotes 0 (canonical value 0), n == OMEGA_NORMAL
// denotes v != 0.  Operands: any finite non-NaN float.  apply() must compute the
// single-precision scalar operation (same expression), results that are zero must be
// (0, OMEGA_ZERO); short cuts must agree with apply(); division by zero raises DIVIDE_BY_ZERO.
#include "forest_record.h"
#ifndef OP
#define OP 0
#endif
#if OP == 0
#include "operations/arith_plus.cc"
#define POL evstar_plus
#define STYLE 2
#elif OP == 1
#include "operations/arith_minus.cc"
#define POL evstar_minus
#define STYLE 2
#elif OP == 2
#include "operations/arith_mult.cc"
#define POL evstar_mult
#define STYLE 0
#elif OP == 3
#include "operations/arith_div.cc"
#define POL evstar_div
#define STYLE 0
#elif OP == 5
#include "operations/arith_max.cc"
#define POL evstar_max
#define STYLE 2
#else
#include "operations/arith_min.cc"
#define POL evstar_min
#define STYLE 2
#endif
using namespace MEDDLY;
static inline bool finite_bits(unsigned u) { return (u & 0x7f800000u) != 0x7f800000u; }

struct ev { bool zero; float v; };
static ev any_ev() {
  ev x; x.zero = vp_nondet_bool();
  unsigned u = vp_nondet_u32(); vp_assume(finite_bits(u));
  union { unsigned u; float f; } t; t.u = u; x.v = t.f;
  if (x.zero) x.v = 0; else vp_assume(x.v != 0);
  return x;
}
static bool spec(ev a, ev b, float &c) {
  switch (OP) {
    case 0: c = a.v + b.v; return true;
    case 1: c = a.v - b.v; return true;
    case 2: c = a.v * b.v; return true;
    case 3: if (b.v == 0) return false; c = a.v / b.v; return true;
    case 5: c = a.v > b.v ? a.v : b.v; return true;
    default: c = a.v < b.v ? a.v : b.v; return true;
  }
}
static int run(forest* f, ev a, ev b, ev &c) {
  edge_value av(a.v), bv(b.v), cv; node_handle an = a.zero ? OMEGA_ZERO : OMEGA_NORMAL, bn = b.zero ? OMEGA_ZERO : OMEGA_NORMAL, cn = 777;
  try {
#if STYLE == 0
    POL<float>::apply(f, an, f, bn, f, cn);
    edge_value ab; POL<float>::apply(av, bv, ab);
    EdgeOp_times<float>::clear(cv); EdgeOp_times<float>::accumulateOp(cv, ab); EdgeOp_times<float>::normalize(cv, cn);
#else
    POL<float>::apply(av, an, bv, bn, cv, cn);
#endif
  } catch (MEDDLY::error e) { return 1 + int(e.getCode()); }
  c.zero = (cn == OMEGA_ZERO); c.v = float(cv);
  vp_assert(cn == OMEGA_ZERO || cn == OMEGA_NORMAL, "result node is an omega terminal");
  return 0;
}

extern "C" void c05_evstar()
{
  forest* f = forest_record(false, range_type::REAL, edge_labeling::EVTIMES, vp_nondet_bool() ? reduction_rule::IDENTITY_REDUCED : reduction_rule::FULLY_REDUCED, edge_type::FLOAT, terminal_type::OMEGA);
  ev a = any_ev(), b = any_ev(), c;
  { edge_value ta(a.v), tb(b.v); a.v = float(ta); b.v = float(tb); }
  int rc = run(f, a, b, c);
  float e; bool valid = spec(a, b, e);
  if (!valid) { vp_cover(1); vp_assert(rc == 1 + int(error::DIVIDE_BY_ZERO), "EV* division by zero raises DIVIDE_BY_ZERO"); }
  else {
    vp_assert(rc == 0, "valid EV* case returns a value");
    // outside the claim: products/quotients of two non-zero operands that underflow to 0 (the node part
    // of the result is decided from the operands' zero-ness, so the edge is (0, normal) - a rounding artefact)
    if (e == e && !(e == 0 && !a.zero && !b.zero && (OP == 2 || OP == 3))) {
      vp_cover(2);
      vp_assert(c.zero == (e == 0), "EV* result is the omega-zero edge iff the scalar result is zero");
      if (!c.zero) vp_assert(vp_f32_bits(c.v) == vp_f32_bits(e), "EV* apply computes the single-precision scalar operation");
      else vp_assert(c.v == 0, "omega-zero edge carries the canonical value 0");
    }
  }
#if STYLE == 0
  node_handle an = a.zero ? OMEGA_ZERO : OMEGA_NORMAL, bn = b.zero ? OMEGA_ZERO : OMEGA_NORMAL;
  // node-part short cuts of the compat template are judged with both values 1 (factored out)
  if ((a.zero || a.v == 1.0f) && (b.zero || b.v == 1.0f)) {
    node_handle a2 = an, b2 = bn;
    if (POL<float>::simplifiesToFirstArg(0, f, a2, f, bn)) {
      vp_cover(4);
      if (valid) vp_assert(rc == 0 && c.zero == a.zero && (c.zero || c.v == a.v), "simplifiesToFirstArg implies the result is the first argument (EV*)");
      else vp_assert(0, "short cut 'result is the first argument' fires where the scalar case is invalid (division by zero must raise)");
    }
    if (POL<float>::simplifiesToSecondArg(0, f, an, f, b2)) {
      vp_cover(5);
      if (valid) vp_assert(rc == 0 && c.zero == b.zero && (c.zero || c.v == b.v), "simplifiesToSecondArg implies the result is the second argument (EV*)");
      else vp_assert(0, "short cut 'result is the second argument' fires where the scalar case is invalid (division by zero must raise)");
    }
  }
#else
  {
    edge_value av(a.v), bv(b.v); node_handle an = a.zero ? OMEGA_ZERO : OMEGA_NORMAL, bn = b.zero ? OMEGA_ZERO : OMEGA_NORMAL;
    node_handle a2 = an, b2 = bn;
    if (POL<float>::simplifiesToFirstArg(0, f, av, a2, f, bv, bn)) { vp_cover(4); vp_assert(rc == 0 && c.zero == a.zero && (c.zero || vp_f32_bits(c.v) == vp_f32_bits(a.v)), "simplifiesToFirstArg implies the result is the first argument (EV*)"); }
    if (POL<float>::simplifiesToSecondArg(0, f, av, an, f, bv, b2)) { vp_cover(5); vp_assert(rc == 0 && c.zero == b.zero && (c.zero || vp_f32_bits(c.v) == vp_f32_bits(b.v)), "simplifiesToSecondArg implies the result is the second argument (EV*)"); }
  }
#endif
  vp_reach();
}
