// C05 L1: the comparison policies of the real operations/compare.cc (included into this TU):
// {==, !=, >, >=, <, <=} x {MT integer, MT real, EV+ long, EV* float}.
//   compare(a,b) == the scalar relation on the decoded values (extended integers for EV+);
//   isSymmetric() => compare(a,b) == compare(b,a);  isReflexive() == value of x ~ x;
//   isSpecialCase(a,b,answer) (EV) => compare(a,b) == answer whenever not both are infinite.
#include "forest_record.h"
#include "operations/compare.cc"
using namespace MEDDLY;
#ifndef CMP
#define CMP 0
#endif
#if CMP == 0
#define MT_POL eq_mt
#define EVP_POL eq_evplus
#define EVS_POL eq_evstar
#define REL(x, y) ((x) == (y))
#elif CMP == 1
#define MT_POL ne_mt
#define EVP_POL ne_evplus
#define EVS_POL ne_evstar
#define REL(x, y) ((x) != (y))
#elif CMP == 2
#define MT_POL gt_mt
#define EVP_POL gt_evplus
#define EVS_POL gt_evstar
#define REL(x, y) ((x) > (y))
#elif CMP == 3
#define MT_POL ge_mt
#define EVP_POL ge_evplus
#define EVS_POL ge_evstar
#define REL(x, y) ((x) >= (y))
#elif CMP == 4
#define MT_POL lt_mt
#define EVP_POL lt_evplus
#define EVS_POL lt_evstar
#define REL(x, y) ((x) < (y))
#else
#define MT_POL le_mt
#define EVP_POL le_evplus
#define EVS_POL le_evstar
#define REL(x, y) ((x) <= (y))
#endif

static inline bool is_nan_bits(unsigned u) { return (u & 0x7f800000u) == 0x7f800000u && (u & 0x007fffffu) != 0; }

extern "C" void c05_cmp_mt()
{
  forest* fi = forest_record(false, range_type::INTEGER, edge_labeling::MULTI_TERMINAL, reduction_rule::FULLY_REDUCED, edge_type::VOID, terminal_type::INTEGER);
  node_handle a = vp_nondet_i32(), b = vp_nondet_i32();
  vp_assume((a == 0 || a < 0) && a != (node_handle) 0x80000000 && (b == 0 || b < 0) && b != (node_handle) 0x80000000);
  long va, vb; fi->getValueFromHandle(a, va); fi->getValueFromHandle(b, vb);
  bool r = MT_POL<long>::compare(fi, a, fi, b);
  vp_assert(r == REL(va, vb), "MT integer comparison equals the scalar relation");
  if (MT_POL<long>::isSymmetric()) vp_assert(MT_POL<long>::compare(fi, b, fi, a) == r, "isSymmetric() implies a ~ b == b ~ a");
  if (a == b) { vp_assert(r == MT_POL<long>::isReflexive(), "isReflexive() is the value of x ~ x"); vp_cover(1); }
  if (r) vp_cover(2); else vp_cover(3);
  // real terminals
  forest* fr = forest_record(false, range_type::REAL, edge_labeling::MULTI_TERMINAL, reduction_rule::FULLY_REDUCED, edge_type::VOID, terminal_type::REAL);
  float xa, xb; fr->getValueFromHandle(a, xa); fr->getValueFromHandle(b, xb);
  vp_assume(!is_nan_bits(vp_f32_bits(xa)) && !is_nan_bits(vp_f32_bits(xb)));
  bool q = MT_POL<float>::compare(fr, a, fr, b);
  vp_assert(q == REL(xa, xb), "MT real comparison equals the scalar relation");
  if (a == b) vp_assert(q == MT_POL<float>::isReflexive(), "isReflexive() is the value of x ~ x (real)");
  vp_reach();
}

extern "C" void c05_cmp_evplus()
{
  bool ainf = vp_nondet_bool(), binf = vp_nondet_bool();
  long va = vp_nondet_i64(), vb = vp_nondet_i64();
  if (ainf) va = 0; if (binf) vb = 0;
  edge_value av(va), bv(vb);
  node_handle ap = ainf ? OMEGA_INFINITY : OMEGA_NORMAL, bp = binf ? OMEGA_INFINITY : OMEGA_NORMAL;
  bool r = EVP_POL<long>::compare(av, ap, bv, bp);
  // extended integers: +infinity is above every finite value and equal to itself
  bool want;
  if (ainf && binf) want = REL(0, 0);
  else if (ainf) want = REL(1, 0);
  else if (binf) want = REL(0, 1);
  else want = REL(va, vb);
  vp_assert(r == want, "EV+ comparison equals the relation on the extended integers");
  if (EVP_POL<long>::isSymmetric()) vp_assert(EVP_POL<long>::compare(bv, bp, av, ap) == r, "isSymmetric() implies symmetric compare (EV+)");
  if (ainf == binf && va == vb) vp_assert(r == EVP_POL<long>::isReflexive(), "isReflexive() is the value of x ~ x (EV+)");
  if (!(ainf && binf)) {
    bool answer = false;
    if (EVP_POL<long>::isSpecialCase(av, ap, bv, bp, answer)) {
      vp_assert(answer == want, "EV+ special case answers like the comparison itself");
      vp_cover(1);
    }
  }
  if (ainf != binf) vp_cover(2);
  vp_reach();
}

extern "C" void c05_cmp_evstar()
{
  bool az = vp_nondet_bool(), bz = vp_nondet_bool();
  unsigned ua = vp_nondet_u32(), ub = vp_nondet_u32();
  vp_assume(!is_nan_bits(ua) && !is_nan_bits(ub));
  union { unsigned u; float f; } x, y; x.u = ua; y.u = ub;
  if (az) x.f = 0; else vp_assume(x.f != 0);
  if (bz) y.f = 0; else vp_assume(y.f != 0);
  edge_value av(x.f), bv(y.f);
  node_handle ap = az ? OMEGA_ZERO : OMEGA_NORMAL, bp = bz ? OMEGA_ZERO : OMEGA_NORMAL;
  bool r = EVS_POL<float>::compare(av, ap, bv, bp);
  vp_assert(r == REL(x.f, y.f), "EV* comparison equals the scalar relation (omega-zero is 0)");
  if (az == bz && ua == ub) vp_assert(r == EVS_POL<float>::isReflexive(), "isReflexive() is the value of x ~ x (EV*)");
  bool answer = false;
  if (!(az && bz) && EVS_POL<float>::isSpecialCase(av, ap, bv, bp, answer)) { vp_assert(answer == REL(x.f, y.f), "EV* special case answers like the comparison itself"); vp_cover(1); }
  vp_reach();
}
