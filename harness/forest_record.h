// A "forest record": zeroed storage of sizeof(forest) whose attribute fields are set
// directly.  Only for kernels that read nothing but those attributes (inline accessors
// in forest.h: handleForValue, getValueFromHandle, isIdentityReduced, getRangeType ...).
// The harness TU sees private members as public (layout and mangling are unaffected).
#pragma once
#include <cstdlib>
#include <cstring>
#include <cstdio>
#include <string>
#include <vector>
#include <map>
#include <set>
#include <memory>
#include <limits>
#include <iostream>
#include <fstream>
#include <sstream>
#include <cassert>
#include <cmath>
#define private public
#define protected public
#include "meddly.h"
#undef private
#undef protected
#include "vp.h"

static inline MEDDLY::forest* forest_record(bool rel, MEDDLY::range_type rt, MEDDLY::edge_labeling el,
    MEDDLY::reduction_rule rr, MEDDLY::edge_type et, MEDDLY::terminal_type tt)
{
  void* m = calloc(1, sizeof(MEDDLY::forest));
  MEDDLY::forest* f = (MEDDLY::forest*) m;
  f->isRelation = rel; f->rangeType = rt; f->edgeLabel = el;
  f->deflt.reduction = rr; f->the_edge_type = et; f->the_terminal_type = tt;
  return f;
}
