# Registry of CBMC query groups (jobs) per property.
# Each job: one harness root function (extern "C") at one bound.
import os, sys
sys.path.insert(0, os.path.join(os.path.dirname(os.path.dirname(os.path.abspath(__file__))), 'tool'))
from vpipe import Job

JOBS = []
def J(*a, **k):
    JOBS.append(Job(*a, **k))

# ---------------------------------------------------------------- C19
for root, covers in [('c19_int_roundtrip', [1, 2, 3, 4, 5, 6]), ('c19_int_injective', [1]),
                     ('c19_real_roundtrip', [1, 2, 3, 4, 5]), ('c19_real_injective', [1]),
                     ('c19_bool', [1, 2]), ('c19_convert', [1])]:
    J('C19', root, 'c19_terminal.cc', root, units=['error.cc'], unwind=2, covers=covers, timeout=300,
      desc='terminal.h codec; all inputs full width (64-bit long, all non-NaN 32-bit float patterns)')

def jobs_for(prop, tier):
    out = [j for j in JOBS if j.prop == prop and (tier == 'thorough' or j.tier == 'quick')]
    return out

# ---------------------------------------------------------------- probes (not part of any property)
J('PROBE', 'probe_e2e', 'probe_e2e.cc', 'probe_e2e', units=['ALL'], unwind=3, timeout=3000, mem_gb=24, tv=0, object_bits=12, tier='probe')

# ---------------------------------------------------------------- C18
MM_UNITS = {'array_grid_style': 'memory_managers/array_grid.cc', 'orig_grid_style': 'memory_managers/orig_grid.cc',
            'heap_style': 'memory_managers/heap_manager.cc', 'freelist_style': 'memory_managers/freelists.cc'}
def mm_job(style, gran, k, s, pre, tier, timeout, arena=48, unwind=None):
    name = 'c18_%s_g%d_k%d_s%d_p%d' % (style.replace('_style', ''), gran, k, s, pre)
    J('C18', name, 'c18_mm.cc', 'c18_history', units=[MM_UNITS[style], 'memory.cc', 'memstats.cc', 'error.cc'],
      defines={'STYLE': style, 'GRAN': gran, 'K': k, 'S': s, 'PRE': pre, 'MINSZ': 4 if style != 'freelist_style' else 1},
      gxx_units=['io.cc', 'memory_managers/malloc_style.cc'], unit_defines={'MEDDLY_VERIF_ARENA': arena}, arena=({2: 'uint16_t', 4: 'uint32_t', 8: 'uint64_t'}[gran], arena), unwind=unwind or (k + pre + 3), timeout=timeout, tier=tier, covers=[2, 3] if k >= 3 else [2],
      flags=['--no-array-field-sensitivity'] if False else [],
      desc='%s, %d-byte slots, free history of %d nondet steps (request size in [min,%d] / recycle any live chunk)%s; initial arena %d slots (hook H1)' % (
          style, gran, k, s, (' after a shaped prefix of %d requests + nondet recycles' % pre) if pre else '', arena))
for st in MM_UNITS:
    mm_job(st, 4, 2, 8, 0, 'quick', 1500)
    mm_job(st, 4, 3, 8, 0, 'thorough', 5400)
# hole managers keep a "current hole" / best-fit state that only a longer history reaches: a shaped prefix of 2 requests with a nondet
# recycled subset, then 4 nondet steps with sizes up to 14 (a split that leaves a remainder needs sizes that differ by >= 5)
# (measured: heap_style with PRE=2, K=4, S=14 is 2.6M SSA steps and exceeds 12 GB in propositional conversion -> shaped start states below instead)
# shaped start states: a fixed script (n: request n slots, -k: recycle the k-th chunk) followed by K nondet steps with sizes up to 14
SCRIPTS = {'curhole': ('12,5,-1,6', 3, 48, 'a hole of 12 split by a request of 6: the remainder (for the heap manager: its current hole) sits directly before the last chunk'),
           'holes3': ('8,4,9,4,10,4,-1,-3,-5', 6, 64, 'three separate holes of 8, 9 and 10 slots between live chunks'),
           'curheap': ('12,4,10,4,-1,-3,6', 5, 64, 'a partly used hole and a second hole of 10 slots')}
def shaped_job(style, sc, k, tier, timeout, internals=False):
    script, nreq, arena, what = SCRIPTS[sc]
    units = ['memory.cc', 'memstats.cc', 'error.cc'] + ([] if internals else [MM_UNITS[style]])
    d = {'STYLE': style, 'GRAN': 4, 'K': k, 'S': 14, 'PRE': nreq, 'MINSZ': 4, 'SCRIPT': script}
    if internals: d['HEAP_INTERNALS'] = 1
    J('C18', 'c18_shaped_%s_%s_k%d%s' % (style.replace('_style', ''), sc, k, '_int' if internals else ''), 'c18_mm.cc', 'c18_shaped', units=units, defines=d,
      gxx_units=['io.cc', 'memory_managers/malloc_style.cc'], unit_defines={'MEDDLY_VERIF_ARENA': arena}, arena=('uint32_t', arena), unwind=k + nreq + 4, timeout=timeout, tier=tier, mem_gb=12 if k < 2 else 20,
      covers=[2] + ([6] if internals and sc != 'holes3' else []),
      desc='%s, 4-byte slots: start state built by the script [%s] (%s), then %d nondet step(s) (request size in [4,14] / recycle any live chunk)%s; arena %d slots (hook H1), growth beyond it cut' % (
          style, script, what, k, '; plus the heap manager\'s own bookkeeping (current hole, heap root inside the used part of the arena)' if internals else '', arena))
for sc in SCRIPTS:
    shaped_job('heap_style', sc, 1, 'quick' if sc == 'curhole' else 'thorough', 1500, internals=True)
    shaped_job('heap_style', sc, 2, 'thorough', 5400, internals=True)
    for st in ('array_grid_style', 'orig_grid_style'):
        shaped_job(st, sc, 2, 'thorough', 5400)
shaped_job('heap_style', 'curhole', 3, 'thorough', 7200, internals=True)
for st in ('orig_grid_style', 'freelist_style'):
    mm_job(st, 2, 3, 8, 0, 'thorough', 5400)
    mm_job(st, 8, 3, 8, 0, 'thorough', 5400)
for st in ('orig_grid_style', 'array_grid_style', 'heap_style'):
    for (s1, s2, s3) in ((4, 14, 20), (6, 10, 30), (4, 20, 40)):
        J('C18', 'c18_growth_%s_%d_%d_%d' % (st.replace('_style', ''), s1, s2, s3), 'c18_mm.cc', 'c18_growth', units=[MM_UNITS[st], 'memory.cc', 'memstats.cc', 'error.cc'],
          defines={'STYLE': st, 'GRAN': 4, 'K': 0, 'S': 20, 'PRE': 0, 'MINSZ': 4, 'S1': s1, 'S2': s2, 'S3': s3}, gxx_units=['io.cc', 'memory_managers/malloc_style.cc'],
          unit_defines={'MEDDLY_VERIF_ARENA': 16}, unwind=8, unwind_re={r'^__ll2c_realloc': 70, r'^__ll2c_mem': 70}, realloc_copy_max=280, timeout=2400,
          tier='quick' if (s1, s2, s3) == (4, 14, 20) else 'thorough', covers=[1],
          desc='%s: arena growth - initial arena 16 slots (hook H1), requests of %d, %d, %d slots so that the backing array is reallocated; chunks stay addressable (CBMC bounds checks) and keep their symbolic contents' % (st, s1, s2, s3))
for g in (4, 8):
    J('C18', 'c18_malloc_g%d' % g, 'c18_mm.cc', 'c18_malloc', units=['memory_managers/malloc_style.cc', 'memory.cc', 'memstats.cc', 'error.cc'],
      defines={'GRAN': g, 'S': 8, 'MINSZ': 1, 'MALLOC_ONLY': 1}, gxx_units=['io.cc'], unwind=3, covers=[1], timeout=600,
      desc='malloc_style bookkeeping, %d-byte slots, two live chunks of nondet size in [1,8], recycle/re-request; getChunkAddress (NULL base + handle) excluded: not representable in CBMC pointer model' % g)
J('PROBE', 'probe_e2e2', 'probe_e2e2.cc', 'probe_e2e2', units=['ALL'], gxx_extra=['-lgmp'], unwind=1100, timeout=3000, mem_gb=24, tv=0, object_bits=12, tier='probe')

# ---------------------------------------------------------------- C06
for mode in (0, 1, 2):
    J('C06', 'c06_counter_m%d' % mode, 'c06_arrays.cc', 'c06_counter', units=['arrays.cc', 'error.cc'], gxx_units=['io.cc'], defines={'MODE': mode}, unwind=8,
      covers=[7, 8] + ([3] if mode < 2 else []) + ([4] if mode > 0 else []), timeout=900,
      desc='counter_array in %d-bit mode (reached through the real 255->256 / 65535->65536 transitions), 3 cells each holding any count of that width with exact censuses, then one nondet operation from {increment, decrement, isZeroBeforeIncrement, isPositiveAfterDecrement, swap, expand(4|5), shrink(2|1)}' % (8 << mode))
    J('C06', 'c06_counter_seq_m%d' % mode, 'c06_arrays.cc', 'c06_counter_seq', units=['arrays.cc', 'error.cc'], gxx_units=['io.cc'], defines={'MODE': mode}, unwind=8,
      covers=[7, 8] + ([5] if mode > 0 else []), timeout=900,
      desc='counter_array in %d-bit mode, symbolic contents, one counting operation followed by one resize' % (8 << mode))
J('C06', 'c06_address', 'c06_arrays.cc', 'c06_address', units=['arrays.cc', 'error.cc'], gxx_units=['io.cc'], unwind=12, covers=[1, 2, 3, 4], timeout=900,
  desc='address_array: 3..5 cells, 3 nondet operations from {set(any 64-bit value), swap, expand, shrink}')
J('C06', 'c06_level', 'c06_arrays.cc', 'c06_level', units=['arrays.cc', 'error.cc'], gxx_units=['io.cc'], unwind=12, covers=[1, 2, 3, 4], timeout=900,
  desc='level_array: any max_level in [1,2^31), 3 nondet operations from {set(any level in range), swap, expand}')

# ---------------------------------------------------------------- C05 (L1 kernels)
C05_OPS = ['plus', 'minus', 'mult', 'div', 'mod', 'max', 'min', 'distmin']
for k, nm in enumerate(C05_OPS):
    J('C05', 'c05_mt_long_' + nm, 'c05_kernels.cc', 'c05_mt_long', units=['error.cc', 'edge_value.cc'], defines=dict({'OP': k}, **({'NO_COMMUTE': 1} if nm == 'mult' else {})), unwind=3, timeout=900, gxx_units=['ALL'], backend=('z3' if nm in ('mult', 'div', 'mod') else 'sat'),
      gxx_exclude=['operations/arith_%s.cc' % nm],
      covers=[3] + ([1] if nm in ('div', 'mod') else []) + ([2] if nm in ('plus', 'minus', 'mult') else []),
      desc='MT integer policy mt_%s<long> from operations/arith_%s.cc: both operands any terminal value in %s' % (nm, nm, '[-2^30, 2^30)' + (' (bit-level commutativity of the 64-bit multiplier is not checked: no back end finishes it)' if nm == 'mult' else '')))
    if nm != 'mod':
        J('C05', 'c05_mt_real_' + nm, 'c05_kernels.cc', 'c05_mt_real', units=['error.cc', 'edge_value.cc'], defines={'OP': k}, unwind=3, timeout=900, gxx_units=['ALL'], backend=('z3' if nm in ('mult', 'div') else 'sat'),
          gxx_exclude=['operations/arith_%s.cc' % nm], covers=[2] + ([1] if nm == 'div' else []),
          desc='MT real policy mt_%s<float>: both operands any finite real terminal (all non-NaN, non-inf float patterns through the handle encoding)' % nm)

for pess in (0, 1):
    for k, tier, to in (((6 if pess else 5), 'quick', 2400), (7, 'thorough', 7200)):
        J('C06', 'c06_headers_%s_k%d' % ('pess' if pess else 'opt', k), 'c06_headers.cc', 'c06_headers',
          units=['node_headers.cc', 'arrays.cc', 'error.cc', 'memstats.cc', 'statset.cc'], unit_defines={'MEDDLY_VERIF_NH_START': 16},
          defines={'NSTEPS': k, 'PESS': pess}, gxx_units=['ALL'], gxx_extra=['-Wl,--allow-multiple-definition'], unwind=8, unwindset={'__ll2c_memset.0': 18, '__ll2c_memzero_uint32_t.0': 18, '__ll2c_memzero_uint8_t.0': 18}, tier=tier, timeout=to, cut='counter_array12expand8to16|counter_array13expand16to32|address_array12expand32to64|node_headers16expandHandleListEv|node_headers16shrinkHandleListEv',
          covers=([1, 3] + ([4, 6] if pess else [5, 7])),
          desc='node_headers (%s), handle arrays fixed at 8 entries (growth/shrink of the handle list cut), history of %d nondet steps from {new node, link, unlink, cache, uncache} over handles 1..3; owner forest is a record with a stand-in deleteNode; counter/address widening and expandHandleList/shrinkHandleList are cut here (assume false; widening is covered by c06_counter_* / c06_address)' % ('pessimistic' if pess else 'optimistic', k))

# ---------------------------------------------------------------- C01 / C02
UT_UNITS = ['unique_table.cc', 'node_headers.cc', 'arrays.cc', 'node_storage.cc', 'error.cc', 'memstats.cc', 'statset.cc']
for k, tier, to in ((3, 'quick', 1800), (4, 'thorough', 7200), (5, 'thorough', 14400)):
    J('C01', 'c01_ut_k%d' % k, 'c01_ut.cc', 'c01_ut', units=UT_UNITS, unit_defines={'MEDDLY_VERIF_NH_START': 8}, defines={'NSTEPS': k, 'NITEMS': 4, 'MODE': 0}, gxx_units=['ALL'],
      unwind=6, unwind_re={r'^__ll2c_mem': 10}, tier=tier, timeout=to, covers=[1, 2],
      desc='unique_table::subtable (8 buckets) with 4 candidate nodes whose 32-bit hashes and equivalence classes are symbolic; %d nondet steps of find-then-add / remove / find' % k)
for mode, nm in ((1, 'expand'), (2, 'shrink')):
    J('C01', 'c01_ut_' + nm, 'c01_ut.cc', 'c01_ut', units=UT_UNITS, unit_defines={'MEDDLY_VERIF_NH_START': 8}, defines={'NSTEPS': 0, 'NITEMS': 4, 'MODE': mode}, gxx_units=['ALL'],
      unwind=6, unwind_re={r'^__ll2c_mem': 10, r'subtable6shrinkEv\.1$': 18, r'subtable6expandEv\.[12]$': 18}, tier=('quick' if mode == 1 else 'thorough'), timeout=3600, covers=[3] + ([4] if mode == 2 else []),
      desc='unique_table::subtable rehashing: 3 adds with the growth threshold lowered to 2 (8 -> 16 buckets)%s; 32-bit hashes of the pairwise inequivalent items symbolic; every stored item must be found afterwards' % (', then 2 removes (16 -> 8)' if mode == 2 else ''))
for kind in (0, 1):
    for pat in range(1, 8):
        for opt in range(3):
            for root in ('c01_hash', 'c01_codec'):
                J('C01', '%s_%s_p%d_o%d' % (root, 'mt' if kind == 0 else 'evp', pat, opt), 'c01_hash.cc', root,
                  units=['unpacked_node.cc', 'memory_managers/orig_grid.cc', 'memory.cc', 'memstats.cc', 'error.cc', 'node_storage.cc', 'edge_value.cc'],
                  unit_defines={'MEDDLY_VERIF_ARENA': 48, 'MEDDLY_VERIF_HASHLOG': 1}, arena=('uint32_t', 48), defines={'KIND': kind, 'PAT': pat, 'OPT': opt},
                  gxx_units=['ALL'], gxx_exclude=['storage/simple.cc'], unwind=6 if root == 'c01_codec' else 14, timeout=1800,
                  tier='quick' if (kind == 0 and ((root == 'c01_hash' and pat in (5, 7)) or (root == 'c01_codec' and pat in (2, 4, 5, 7)))) else 'thorough',
                  desc='%s node of a level of size 3, shape %s (1 = non-transparent child), children%s symbolic; storage option %s%s' % (
                      'MT' if kind == 0 else 'EV+ (long, hashed edge values)', format(pat, '03b')[::-1], '' if kind == 0 else ' and edge values',
                      ['FULL_ONLY', 'SPARSE_ONLY', 'FULL_OR_SPARSE'][opt], '; second symbolic node of any shape for the duplicate test' if root == 'c01_codec' else ''))
J('PROBE', 'probe_f', 'probe_f.cc', 'probe_f', units=['ALL'], unit_defines={'MEDDLY_VERIF_NH_START': 8, 'MEDDLY_VERIF_ARENA': 64}, unwind=70, timeout=3000, mem_gb=24, tv=0, object_bits=12, tier='probe')
for slot in range(4):
    J('C01', 'c01_hashstream_s%d' % slot, 'c01_hashstream.cc', 'c01_hashstream', units=['error.cc'], defines={'SLOT': slot}, unwind=4, timeout=600, covers=[], backend='z3',
      desc='real hash_stream from an arbitrary state (3 x 32-bit words) with slot == %d: pair push == two single pushes; byte-block push == word pushes' % slot)
for k, nm in enumerate(C05_OPS):
    J('C05', 'c05_mt_levels_' + nm, 'c05_kernels.cc', 'c05_mt_long_levels', units=['error.cc', 'edge_value.cc'], defines={'OP': k}, unwind=3, timeout=900, gxx_units=['ALL'],
      backend=('z3' if nm in ('mult', 'div', 'mod') else 'sat'), gxx_exclude=['operations/arith_%s.cc' % nm], covers=[],
      desc='MT integer policy mt_%s<long>: short cuts judged at a symbolic level L in 0..2 and point kind (diagonal / off-diagonal) with the reduction rules of the two operand forests chosen independently (identity-reduced terminals above level 0 denote identity patterns)' % nm)
C05_EVP = ['plus', 'minus', 'mult', 'div', 'mod', 'max', 'min']
for k, nm in enumerate(C05_EVP):
    J('C05', 'c05_evplus_' + nm, 'c05_evplus.cc', 'c05_evplus', units=['error.cc', 'edge_value.cc'], defines={'OP': k}, unwind=3, timeout=900, gxx_units=['ALL'],
      backend=('z3' if nm in ('mult', 'div', 'mod') else 'sat'), gxx_exclude=['operations/arith_%s.cc' % nm], covers=[1],
      desc='EV+ policy evplus_%s<long>: both operands any extended integer (infinity, or any finite value with |v| < %s)' % (nm, '2^31' if nm in ('mult', 'div', 'mod') else '2^62'))

# ---------------------------------------------------------------- C16 (L1: error paths)
J('C16', 'c16_checks', 'c16_checks.cc', 'c16_checks', units=['error.cc'], unwind=3, timeout=600, gxx_units=['ALL'], covers=[1, 2, 3],
  desc='binary_operation::check{Domains,AllRelations,Relations,AllLabelings,Labelings,AllRanges,AllEdgeTypes} on three forest records with symbolic attributes (2 domains x set/relation x 3 range types x 4 labelings x 5 edge types each)')
import copy as _copy
for root, cov in (('c19_edge_mt', [1, 2, 3, 4]), ('c19_edge_ev', [1, 2, 3])):
    J('C19', root, 'c19_edges.cc', root, units=['forest.cc', 'policies.cc', 'error.cc', 'edge_value.cc'], unwind=3, timeout=900, gxx_units=['ALL'], covers=cov,
      desc='forest::getEdgeForValue / getValueForEdge (real forest.cc) on forest records of every labeling; value symbolic at full width (64-bit integers, all non-NaN floats, +infinity)')

# C02 shares the codec / hash-agreement harness with C01
for _j in list(JOBS):
    if _j.prop == 'C01' and (_j.name.startswith('c01_codec_') or _j.name.startswith('c01_hash_')):
        _k = _copy.copy(_j); _k.prop = 'C02'; _k.name = 'c02_' + _j.name[4:]
        if _j.name.startswith('c01_hash_'): _k.tier = 'thorough' if not (_j.tier == 'quick' and '_p7_' in _j.name) else 'quick'
        JOBS.append(_k)
for j in JOBS:
    if j.prop == 'C01' and j.name.startswith('c01_codec_') and j.tier == 'quick' and ('_p2_' in j.name or '_p4_' in j.name): j.tier = 'thorough'

# ---------------------------------------------------------------- C12 (component level: storage x memory manager)
MM_HDR = {'orig_grid_style': 'memory_managers/orig_grid.cc', 'array_grid_style': 'memory_managers/array_grid.cc', 'heap_style': 'memory_managers/heap_manager.cc', 'freelist_style': 'memory_managers/freelists.cc'}
for mm in MM_HDR:
    for opt in range(3):
        for (pa, pb, pc) in ((7, 5, 1), (1, 5, 7), (5, 3, 6)):
            J('C12', 'c12_store_%s_o%d_%d%d%d' % (mm.replace('_style', ''), opt, pa, pb, pc), 'c01_hash.cc', 'c12_store',
              units=['unpacked_node.cc'] + sorted(MM_HDR.values()) + ['memory.cc', 'memstats.cc', 'error.cc', 'node_storage.cc', 'edge_value.cc'],
              unit_defines={'MEDDLY_VERIF_ARENA': 48, 'MEDDLY_VERIF_HASHLOG': 1}, arena=('uint32_t', 48),
              defines={'KIND': 0, 'PAT': pa, 'PATB': pb, 'PATC': pc, 'OPT': opt, 'MMSTYLE': mm}, gxx_units=['ALL'], gxx_exclude=['storage/simple.cc'], unwind=6, timeout=2400, mem_gb=20,
              tier='quick' if ((pa, pb, pc) == (7, 5, 1) and (mm, opt) in (('orig_grid_style', 2), ('orig_grid_style', 1))) else 'thorough',
              desc='node storage over %s, option %s: store A(shape %s), B(%s); release A; store C(%s); children symbolic terminals' % (
                  mm, ['FULL_ONLY', 'SPARSE_ONLY', 'FULL_OR_SPARSE'][opt], format(pa, '03b')[::-1], format(pb, '03b')[::-1], format(pc, '03b')[::-1]))

# ---------------------------------------------------------------- C10 (L1: terminal cases of the copy operations)
for root, cov in (('c10_copy_mt', [2, 3, 4]), ('c10_copy_evplus', [1, 2]), ('c10_copy_evfast', [1, 2])):
    J('C10', root, 'c10_copy.cc', root, units=['forest.cc', 'policies.cc', 'error.cc', 'edge_value.cc'], unwind=3, timeout=900, gxx_units=['ALL'], gxx_exclude=['operations/copy.cc'], covers=cov,
      desc='terminal case (level 0) of the real copy implementation on operation/forest records; source value symbolic at full terminal / edge width, every source x target kind')
C05_CMP = ['eq', 'ne', 'gt', 'ge', 'lt', 'le']
for k, nm in enumerate(C05_CMP):
    for root, cov in (('c05_cmp_mt', [1, 2, 3]), ('c05_cmp_evplus', [2]), ('c05_cmp_evstar', [])):
        J('C05', '%s_%s' % (root, nm), 'c05_compare.cc', root, units=['error.cc', 'edge_value.cc'], defines={'CMP': k}, unwind=3, timeout=900, gxx_units=['ALL'],
          gxx_exclude=['operations/compare.cc'], covers=cov,
          desc='comparison policy %s from operations/compare.cc, both operands symbolic at full width (terminal handles / extended integers / non-NaN floats)' % nm)

# the error paths of the scalar kernels (DIVIDE_BY_ZERO, VALUE_OVERFLOW, SUBTRACT_INFINITY, INFINITY_DIV_INFINITY) and of the terminal codec
import copy as _copy
for _j in list(JOBS):
    if _j.name in ('c05_mt_long_div', 'c05_mt_long_mod', 'c05_mt_real_div', 'c05_mt_long_plus', 'c05_mt_long_mult', 'c05_evplus_minus', 'c05_evplus_div', 'c05_evplus_mod',
                   'c19_int_roundtrip', 'c19_bool', 'c19_edge_mt', 'c19_edge_ev', 'c10_copy_evplus'):
        _k = _copy.copy(_j); _k.prop = 'C16'; _k.name = 'c16_' + _j.name; JOBS.append(_k)
for k, nm in ((0, 'plus'), (1, 'minus'), (2, 'mult'), (3, 'div'), (5, 'max'), (6, 'min')):
    JOBS.insert(0, Job('C05', 'c05_evstar_' + nm, 'c05_evstar.cc', 'c05_evstar', units=['error.cc', 'edge_value.cc'], defines={'OP': k}, unwind=3, timeout=900, gxx_units=['ALL'],
      backend=('z3' if nm in ('mult', 'div') else 'sat'), gxx_exclude=['operations/arith_%s.cc' % nm], covers=[2],
      desc='EV* policy evstar_%s<float>: both operands any finite float (zero as the omega-zero edge)' % nm))
J('PROBE', 'probe_g', 'probe_g.cc', 'probe_g', units=['ALL'], unit_defines={'MEDDLY_VERIF_NH_START': 8, 'MEDDLY_VERIF_ARENA': 64}, arena=('uint32_t', 64), unwind=20, timeout=3000, mem_gb=24, tv=0, object_bits=12, tier='probe')

# ---------------------------------------------------------------- real-forest harnesses (fixture_forest.h)
REAL_DEFS = {'MEDDLY_VERIF_NH_START': 8, 'MEDDLY_VERIF_ARENA': 64}
for rule in (0, 1):
    J('C01', 'c01_reduce_r%d' % rule, 'c01_reduce.cc', 'c01_reduce', units=['ALL'], unit_defines=REAL_DEFS, defines={'RULE': rule, 'FKIND': 0},
      unwind=4, unwind_re={r'^__ll2c_mem': 10}, timeout=3000, mem_gb=20, object_bits=12, tv=0, tier='exp',
      desc='real MT-integer set forest (%s reduced), 2 variables of size 2: a symbolic 2x2 table of terminal values in {-1,0,1,2} built bottom-up by createReducedNode along two paths (full / sparse unpacked nodes, different order) plus a second symbolic table; audit of all reachable nodes' % ('fully' if rule == 0 else 'quasi'))
J('C01', 'c01_evnorm', 'c01_evnorm.cc', 'c01_evnorm', units=['ALL'], unit_defines=REAL_DEFS, defines={'RULE': 0, 'FKIND': 3},
  unwind=4, unwind_re={r'^__ll2c_mem': 10}, timeout=3000, mem_gb=20, object_bits=12, tv=0, tier='exp', covers=[1, 2],
  desc='real EV+ (long) set forest, 2 variables of size 2: createReducedNode with concrete node structure and symbolic 64-bit edge values (|v| < 2^40): normalisation to a canonical representative at level 1 and level 2')
for root, be in (('c01_norm_evplus', 'sat'), ('c01_norm_evstar', 'z3')):
    J('C01', root, 'c01_norm.cc', root, units=['unpacked_node.cc', 'policies.cc', 'error.cc', 'edge_value.cc'], unwind=5, timeout=1200, gxx_units=['ALL'], gxx_exclude=['forest.cc'],
      backend=be, covers=[1, 2], tier=('quick' if 'plus' in root else 'thorough'),
      desc='normalize_%s from the real forest.cc on a real full unpacked node of size 3: children symbolic handles (0 = transparent), edge values symbolic (%s)' % (
          'evplus<long>' if 'plus' in root else 'evstar<float>', '|v| < 2^60' if 'plus' in root else 'non-zero finite floats'))

# ---------------------------------------------------------------- C04 (L1: terminal cases / short cuts of the set operations under every rule combination)
for opn, nm in ((0, 'union'), (1, 'intersection'), (2, 'difference'), (3, 'complement')):
    J('C04', 'c04_%s' % nm, 'c04_setops.cc', 'c04_setops', units=['edge_value.cc', 'ct_entry_type.cc', 'compute_table.cc', 'node_headers.cc', 'arrays.cc', 'memstats.cc', 'statset.cc', 'error.cc'],
      defines={'OP': opn}, gxx_units=['ALL'], gxx_exclude=['operations/%s.cc' % nm], gxx_extra=['-Wl,--allow-multiple-definition'],
      unwind=10, timeout=1500, covers=[1, 2, 3],
      desc='%s (real operations/%s.cc: constructor flags + terminal cases of _compute): operands 0 / true / non-terminal, same or different forests, every reduction-rule combination '
           '(sets: fully, quasi; relations: fully, quasi, identity), level L in [-3,3], any incoming index; judged pointwise under the rules\' semantics of skipped levels; recursion cut' % (nm, nm))

J('C04', 'c04_cross', 'c04_cross.cc', 'c04_cross', units=['edge_value.cc', 'ct_entry_type.cc', 'compute_table.cc', 'node_headers.cc', 'arrays.cc', 'memstats.cc', 'statset.cc', 'error.cc'],
  gxx_units=['ALL'], gxx_exclude=['operations/cross.cc'], gxx_extra=['-Wl,--allow-multiple-definition'], unwind=10, timeout=1500, covers=[1, 2, 3],
  desc='cross product (real operations/cross.cc, real constructor): one step of compute_un / compute_pr at level k in [0,3] with operands 0 / true / nodes whose handle numbers name nodes at independently chosen levels in the two operand forests (same or distinct): terminal answers, and an operand is unpacked as a stored node only at the level it has in its own forest, expanded redundantly only above it; what is done with the unpacked nodes is cut')

# ---------------------------------------------------------------- C11 (L1: cardinality of the functions an edge denotes without a node)
for rt, nm in ((0, 'int'), (1, 'real')):
    for rel, rule, kn in ((0, 0, 'set_fully'), (0, 1, 'set_quasi'), (1, 0, 'rel_fully'), (1, 1, 'rel_quasi'), (1, 2, 'rel_ident')):
        # two bounds per case: sizes up to 1023 with z3 (decides the unchanged code in seconds because both sides multiply identical terms, but
        # cannot search for a counterexample through 64-bit multipliers in reasonable time), sizes up to 15 with SAT (finds counterexamples)
        for maxsz, be in ((1023, 'z3'), (15, 'sat')):
            J('C11', 'c11_card_%s_%s_s%d' % (nm, kn, maxsz), 'c11_card.cc', 'c11_card', units=['ct_entry_type.cc', 'compute_table.cc', 'node_headers.cc', 'arrays.cc', 'memstats.cc', 'statset.cc', 'varorder.cc', 'oper_item.cc', 'edge_value.cc', 'error.cc'],
              defines={'RT': rt, 'REL': rel, 'RULE': rule, 'MAXSZ': maxsz}, gxx_units=['ALL'], gxx_exclude=['operations/cardinality.cc'], gxx_extra=['-Wl,--allow-multiple-definition'],
              unwind=10, timeout=900, backend=be, covers=([1] if rule != 1 else []) + ([2] if rule == 2 else []), object_bits=12, tier='quick' if rt == 0 else 'exp',
              desc='cardinality (%s result, real operations/cardinality.cc, real constructor) on a %s forest: operand empty or the terminal true at any level L (2 variables; relations: primed levels too), all level sizes symbolic in [1,%d] (%s); recursion over skipped levels real, unpacking of nodes cut' % (nm, kn.replace('_', ', '), maxsz, be))

# C11 (L1: one step of the masked relation iterator at a skipped primed level)
for ev, entry, nm in ((1, 0, 'evplus'), (0, 0, 'mt'), (1, 1, 'evplus_unpr'), (0, 1, 'mt_unpr'), (1, 2, 'evplus_set'), (0, 2, 'mt_set')):
    J('C11', 'c11_iter_skip_%s' % nm, 'c11_iter_skip.cc', 'c11_iter_skip', units=['edge_value.cc', 'error.cc'],
      defines={'EV': ev, 'ENTRY': entry}, gxx_units=['ALL'], gxx_exclude=['dd_edge.cc'], gxx_extra=['-Wl,--allow-multiple-definition'], unwind=6, timeout=900, covers=[1, 2],
      desc='masked relation iterator (real src/dd_edge.cc iterator_templ::first_pri + first_unpr(0,.), %s): one step for a bound variable (mask entry a number in [0,3] or DONT_CHANGE) at a level skipped by the diagram (entry: %s), one-variable forest, from entry in [0,3], edge below transparent or not: continues exactly when the rule lets the fixed to-value through, reported minterm entries and accumulated edge value; forest::getValueForEdge stood in' % ('EdgeOp_plus<long>' if ev else 'EdgeOp_none', ('first_pri on a fully / identity reduced relation', 'first_unpr then first_pri on a fully / identity reduced relation', 'first_unpr on a fully / quasi reduced set forest')[entry]))

# ---------------------------------------------------------------- C17 (L2: forest / edge registries under a bounded lifecycle history)
for k, tier, to in ((3, 'quick', 1500), (4, 'quick', 2400), (5, 'thorough', 7200), (6, 'thorough', 14400)):
    J('C17', 'c17_registry_k%d' % k, 'c17_registry.cc', 'c17_registry', units=['forest.cc', 'dd_edge.cc', 'edge_value.cc', 'policies.cc', 'error.cc'],
      defines={'NSTEPS': k}, gxx_units=['ALL'], gxx_extra=['-Wl,--allow-multiple-definition'], extra_c=[os.path.join(os.path.dirname(os.path.abspath(__file__)), '..', 'tool', 'rt', 'stub_string.c')],
      unwind=k + 7, unwind_re={r'^__ll2c_mem': 12}, timeout=to, tier=tier, covers=[1, 2, 3] + ([4] if k >= 4 else []), ptr_overflow=False, cut='_M_realloc_insert',
      desc='forest registry + root-edge registry + dd_edge attach/detach/copy/destroy (real forest.cc, dd_edge.cc) over forest records: %d nondet lifecycle steps from {create forest, destroy forest, construct edge, attach, assign, destroy edge} over 3 forests and 3 edges; CBMC pointer/bounds checks on, --pointer-overflow-check off (it alone exhausts 12 GB here)' % k)

# ---------------------------------------------------------------- C07 (L2: real compute table over real node headers)
C07_UNITS = ['storage/ct_styles.cc', 'compute_table.cc', 'ct_entry_type.cc', 'ct_entry_key.cc', 'ct_entry_result.cc', 'ct_vector.cc', 'ct_initializer.cc',
             'node_headers.cc', 'arrays.cc', 'memory_managers/freelists.cc', 'memory.cc', 'memstats.cc', 'statset.cc', 'error.cc']
for style in (2, 3, 0, 1):
    for stale in (0, 1, 2):
        J('C07', 'c07_ct_s%d_r%d' % (style, stale), 'c07_ct.cc', 'c07_ct', units=C07_UNITS, unit_defines={'MEDDLY_VERIF_CT_SIZE': 8, 'MEDDLY_VERIF_ARENA': 32},
          defines={'NSTEPS': 3, 'CTSTYLE': style, 'STALE': stale, 'PESS': 1}, ir_exclude=['forest.cc'], gxx_units=['ALL'], gxx_extra=['-Wl,--allow-multiple-definition'],
          cut='counter_array12expand8to16|counter_array13expand16to32|address_array12expand32to64|node_headers16expandHandleListEv|node_headers16shrinkHandleListEv',
          unwind=6, unwind_re={r'^__ll2c_mem': 40, r'_M_fill_insert': 40, r'_M_default_append': 40}, timeout=3000, mem_gb=20, object_bits=12, tier='exp',
          desc='real compute table (%s, stale removal %s) with one entry type (node,node)->node over real node headers; 8 buckets (hook H4); 3 nondet steps from {find-then-add, find, release node, new node, removeStales}' % (
              ['monolithic chained', 'monolithic unchained', 'per-operation chained', 'per-operation unchained'][style], ['aggressive', 'moderate', 'lazy'][stale]))
