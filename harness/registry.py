# Registry of CBMC query groups (jobs) per property.
# Each job: one harness root function (extern "C") at one bound.
import os, sys
sys.path.insert(0, os.path.join(os.path.dirname(os.path.dirname(os.path.abspath(__file__))), 'tool'))
from vpipe import Job

JOBS = []
def J(*a, **k):
    JOBS.append(Job(*a, **k))

# ---------------------------------------------------------------- C19
for root, covers in [('c19_int_roundtrip', [1, 2, 3, 4, 5, 6]), ('c19_int_injective', [1]),
                     ('c19_real_roundtrip', [1, 2, 3, 4, 5]), ('c19_real_injective', [1]),
                     ('c19_bool', [1, 2]), ('c19_convert', [1])]:
    J('C19', root, 'c19_terminal.cc', root, units=['error.cc'], unwind=2, covers=covers, timeout=300,
      desc='terminal.h codec; all inputs full width (64-bit long, all non-NaN 32-bit float patterns)')

def jobs_for(prop, tier):
    out = [j for j in JOBS if j.prop == prop and (tier == 'thorough' or j.tier == 'quick')]
    return out
