// C01 L1: the real hash_stream (src/hash_stream.h) is a fold over the pushed words:
// from ANY state, push(v1,v2) has the effect of push(v1); push(v2), and pushing a block of
// bytes has the effect of pushing its words.  Hence two computations that feed the same
// word sequence (harness c01_hash, via hook H6) produce the same hash.
#include "vp.h"
#include "defines.h"
#include "error.h"
#define private public
#define protected public
#include "hash_stream.h"
#undef private
#undef protected
using namespace MEDDLY;

#ifndef SLOT
#define SLOT 0
#endif
// one job per slot value (compile-time) so that both sides are straight-line code
static void any_state(hash_stream &s) {
  s.start(0);
  s.z[0] = vp_nondet_u32(); s.z[1] = vp_nondet_u32(); s.z[2] = vp_nondet_u32();
  s.slot = SLOT;
}
static bool same(const hash_stream &a, const hash_stream &b) {
  return a.z[0] == b.z[0] && a.z[1] == b.z[1] && a.z[2] == b.z[2] && a.slot == b.slot;
}

extern "C" void c01_hashstream()
{
  hash_stream a; any_state(a);
  hash_stream b = a, c = a, d = a;
  unsigned v1 = vp_nondet_u32(), v2 = vp_nondet_u32();
  a.push(v1, v2);
  b.push(v1); b.push(v2);
  vp_assert(same(a, b), "push(v1,v2) == push(v1); push(v2) from every state");
  if (a.slot == 0) vp_cover(1);
  // 8-byte block (an EV+ long edge value) == its two words
  unsigned blk[2] = { v1, v2 };
  c.push(blk, sizeof(blk));
  vp_assert(same(c, b), "push(bytes of two words) == push(w0); push(w1)");
  // 4-byte block
  hash_stream e = d; e.push(&v1, sizeof(unsigned)); d.push(v1);
  vp_assert(same(e, d), "push(bytes of one word) == push(w0)");
  // finish is a function of the state
  hash_stream f = b;
  vp_assert(b.finish() == f.finish(), "finish() is deterministic in the state");
  // states reachable from start(0) use slots 0..2 only
  hash_stream g; g.start(0);
  vp_assert(g.slot == 2 && g.z[2] == 0 && g.z[1] == 0 && g.z[0] == 0xdeadbeef, "start(0) state");
  vp_reach();
}
