#include "vp.h"
#include "meddly.h"
#include "memory_managers/init_managers.h"
#include "storage/init_storage.h"
#include "init_forests.h"
using namespace MEDDLY;
extern "C" void probe_f()
{
    initializer_list* L = nullptr;
    L = new memman_initializer(L);
    L = new storage_initializer(L);
    L = new forest_initializer(L);
    MEDDLY::initialize(L);
    int bounds[2] = {2, 2};
    domain* d = domain::createBottomUp(bounds, 2);
    forest* f = forest::create(d, SET, range_type::INTEGER, edge_labeling::MULTI_TERMINAL);
    dd_edge e(f);
    f->createEdgeForVar(1, false, e);
    minterm m(f); m.setVar(1, 1); m.setVar(2, 0);
    rangeval v; e.evaluate(m, v);
    vp_assert(long(v) == 1, "x1 evaluates to 1 at x1=1");
    vp_reach();
}
