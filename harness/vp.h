// Verification primitives shared by every harness.
//
// Three implementations exist:
//   * tool/rt/rt.c            (CBMC: nondet / __CPROVER_assume / __CPROVER_assert)
//   * tool/rt/rt_concrete.cc  (g++ build of the same harness: replay of a CBMC
//                              counterexample, and translation validation with a PRNG)
//   * ll2c inlines VP_ASSERT / VP_COVER at the call site so every assertion is a
//     separate CBMC property carrying its message.
#pragma once
extern "C" {
  void vp_assume(int c) noexcept;
  void vp_assert(int c, const char* msg) noexcept;
  unsigned vp_nondet_u32() noexcept;
  unsigned long vp_nondet_u64() noexcept;
  // inclusive range; CBMC: nondet + assume, concrete: PRNG in range / replay value
  unsigned vp_range(unsigned lo, unsigned hi) noexcept;
  // branch witnesses: must be reachable (checked in the WITNESS run).  One function per
  // label so that the optimiser cannot merge two markers into one call with a phi.
  void vp_cover_1() noexcept;
  void vp_cover_2() noexcept;
  void vp_cover_3() noexcept;
  void vp_cover_4() noexcept;
  void vp_cover_5() noexcept;
  void vp_cover_6() noexcept;
  void vp_cover_7() noexcept;
  void vp_cover_8() noexcept;
  void vp_cover_9() noexcept;
  void vp_cover_10() noexcept;
  void vp_cover_11() noexcept;
  void vp_cover_12() noexcept;
  void vp_cover_13() noexcept;
  void vp_cover_14() noexcept;
  void vp_cover_15() noexcept;
  void vp_cover_16() noexcept;
  void vp_cover_17() noexcept;
  void vp_cover_18() noexcept;
  void vp_cover_19() noexcept;
  void vp_cover_20() noexcept;
  void vp_cover_21() noexcept;
  void vp_cover_22() noexcept;
  void vp_cover_23() noexcept;
  void vp_cover_24() noexcept;
  void vp_cover_25() noexcept;
  void vp_cover_26() noexcept;
  void vp_cover_27() noexcept;
  void vp_cover_28() noexcept;
  void vp_cover_29() noexcept;
  void vp_cover_30() noexcept;
  void vp_cover_31() noexcept;
  void vp_cover_32() noexcept;
  void vp_cover_33() noexcept;
  void vp_cover_34() noexcept;
  void vp_cover_35() noexcept;
  void vp_cover_36() noexcept;
  void vp_cover_37() noexcept;
  void vp_cover_38() noexcept;
  void vp_cover_39() noexcept;
  void vp_cover_40() noexcept;
  void vp_reach() noexcept;        // end-of-harness witness
  void vp_observe(unsigned long v) noexcept;  // value stream compared by translation validation
}
static inline int vp_nondet_i32() noexcept { return (int) vp_nondet_u32(); }
static inline long vp_nondet_i64() noexcept { return (long) vp_nondet_u64(); }
static inline bool vp_nondet_bool() noexcept { return vp_range(0, 1) != 0; }
static inline float vp_nondet_f32() noexcept {
  union { unsigned u; float f; } x; x.u = vp_nondet_u32(); return x.f;
}
static inline unsigned vp_f32_bits(float f) noexcept {
  union { unsigned u; float f; } x; x.f = f; return x.u;
}
#define vp_cover(k) vp_cover_##k()
