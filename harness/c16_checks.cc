// C16 L1: the constructor-time compatibility checks shared by all binary operations
// (src/oper_binary.h) on a binary_operation record over three forest records whose
// attributes are symbolic.  Each check must throw the documented error exactly when the
// documented compatibility predicate is false, and otherwise not throw.
#include "forest_record.h"
using namespace MEDDLY;

static forest* any_forest(domain* d1, domain* d2) {
  bool rel = vp_nondet_bool();
  range_type rt = (range_type) vp_range(0, 2);       // BOOLEAN, INTEGER, REAL
  edge_labeling el = (edge_labeling) vp_range(0, 3); // MULTI_TERMINAL, EVPLUS, INDEX_SET, EVTIMES
  edge_type et = (edge_type) vp_range(0, 4);
  forest* f = forest_record(rel, rt, el, reduction_rule::FULLY_REDUCED, et, terminal_type::INTEGER);
  f->d = vp_nondet_bool() ? d1 : d2;
  return f;
}
template <class F> static int code_of(F fn) {
  try { fn(); return 0; } catch (MEDDLY::error e) { return 1 + int(e.getCode()); }
}

extern "C" void c16_checks()
{
  domain* d1 = (domain*) calloc(1, sizeof(domain));
  domain* d2 = (domain*) calloc(1, sizeof(domain));
  forest* a = any_forest(d1, d2); forest* b = any_forest(d1, d2); forest* c = any_forest(d1, d2);
  binary_operation* op = (binary_operation*) calloc(1, sizeof(binary_operation));
  op->arg1F = a; op->arg2F = b; op->resF = c;
  const int DM = 1 + int(error::DOMAIN_MISMATCH), TM = 1 + int(error::TYPE_MISMATCH);

  bool same_dom = (a->d == c->d) && (b->d == c->d);
  vp_assert(code_of([&]{ op->checkDomains(__FILE__, __LINE__); }) == (same_dom ? 0 : DM), "checkDomains: DOMAIN_MISMATCH iff some operand is over another domain");
  if (!same_dom) vp_cover(1);

  bool same_rel = (a->isRelation == c->isRelation) && (b->isRelation == c->isRelation);
  vp_assert(code_of([&]{ op->checkAllRelations(__FILE__, __LINE__); }) == (same_rel ? 0 : TM), "checkAllRelations: TYPE_MISMATCH iff set/relation kinds differ");
  set_or_rel want = vp_nondet_bool() ? RELATION : SET;
  bool all_rel = (a->isRelation == want) && (b->isRelation == want) && (c->isRelation == want);
  vp_assert(code_of([&]{ op->checkAllRelations(__FILE__, __LINE__, want); }) == (all_rel ? 0 : TM), "checkAllRelations(kind): TYPE_MISMATCH iff some forest is not of that kind");
  set_or_rel w1 = vp_nondet_bool() ? RELATION : SET, w2 = vp_nondet_bool() ? RELATION : SET, w3 = vp_nondet_bool() ? RELATION : SET;
  bool rels = (a->isRelation == w1) && (b->isRelation == w2) && (c->isRelation == w3);
  vp_assert(code_of([&]{ op->checkRelations(__FILE__, __LINE__, w1, w2, w3); }) == (rels ? 0 : TM), "checkRelations: TYPE_MISMATCH iff a forest differs from its required kind");

  edge_labeling el = (edge_labeling) vp_range(0, 3);
  bool all_el = (a->edgeLabel == el) && (b->edgeLabel == el) && (c->edgeLabel == el);
  vp_assert(code_of([&]{ op->checkAllLabelings(__FILE__, __LINE__, el); }) == (all_el ? 0 : TM), "checkAllLabelings: TYPE_MISMATCH iff some forest has another edge labeling");
  if (all_el) vp_cover(2);
  edge_labeling e1 = (edge_labeling) vp_range(0, 3), e2 = (edge_labeling) vp_range(0, 3), e3 = (edge_labeling) vp_range(0, 3);
  bool els = (a->edgeLabel == e1) && (b->edgeLabel == e2) && (c->edgeLabel == e3);
  vp_assert(code_of([&]{ op->checkLabelings(__FILE__, __LINE__, e1, e2, e3); }) == (els ? 0 : TM), "checkLabelings: TYPE_MISMATCH iff a forest differs from its required labeling");

  range_type rt = (range_type) vp_range(0, 2);
  bool all_rt = (a->rangeType == rt) && (b->rangeType == rt) && (c->rangeType == rt);
  vp_assert(code_of([&]{ op->checkAllRanges(__FILE__, __LINE__, rt); }) == (all_rt ? 0 : TM), "checkAllRanges: TYPE_MISMATCH iff some forest has another range type");
  edge_type et = (edge_type) vp_range(0, 4);
  bool all_et = (a->the_edge_type == et) && (b->the_edge_type == et) && (c->the_edge_type == et);
  vp_assert(code_of([&]{ op->checkAllEdgeTypes(__FILE__, __LINE__, et); }) == (all_et ? 0 : TM), "checkAllEdgeTypes: TYPE_MISMATCH iff some forest has another edge type");
  if (all_et && all_rt) vp_cover(3);
  vp_reach();
}
