// C01 / C02 L2-real: forest::createReducedNode on a REAL forest (fixture_forest.h), MT integer
// set forest over 2 variables of size 2.  A function is given by a symbolic table t[x2][x1] of
// integer terminal values; it is built bottom-up (level-1 nodes, then the root) along two
// different paths (full/sparse unpacked nodes, different order), and a second symbolic table u.
//   C01: edges of the two builds are identical; the edge of u equals the edge of t iff the
//        tables are equal (fully / quasi reduced: canonical).
//   C02: every stored node read back through unpacked_node::newFromNode in all three modes
//        denotes its child map, is not redundant (fully reduced) / never skips a level (quasi),
//        children are terminals or strictly below; node count == number of distinct nodes.
#include "fixture_forest.h"
using namespace MEDDLY;

static forest* F;

static node_handle build_level1(long a, long b, bool sparse) {
  unpacked_node* u;
  node_handle ha = F->handleForValue(a), hb = F->handleForValue(b);
  if (!sparse) {
    u = unpacked_node::newWritable(F, 1, FULL_ONLY);
    u->setFull(0, ha); u->setFull(1, hb);
  } else {
    u = unpacked_node::newWritable(F, 1, SPARSE_ONLY);
    unsigned z = 0;
    if (ha != 0) { u->setSparse(z, 0, ha); z++; }
    if (hb != 0) { u->setSparse(z, 1, hb); z++; }
    u->shrink(z);
  }
  edge_value ev; node_handle n = 0;
  F->createReducedNode(u, ev, n);
  return n;
}
static node_handle build_root(node_handle c0, node_handle c1, bool sparse) {
  unpacked_node* u;
  if (!sparse) {
    u = unpacked_node::newWritable(F, 2, FULL_ONLY);
    u->setFull(0, c0); u->setFull(1, c1);
  } else {
    u = unpacked_node::newWritable(F, 2, SPARSE_ONLY);
    unsigned z = 0;
    if (c0 != 0) { u->setSparse(z, 0, c0); z++; } else F->unlinkNode(c0);
    if (c1 != 0) { u->setSparse(z, 1, c1); z++; } else F->unlinkNode(c1);
    u->shrink(z);
  }
  edge_value ev; node_handle n = 0;
  F->createReducedNode(u, ev, n);
  return n;
}
static long eval(node_handle r, int x2, int x1) {
  node_handle p = r;
  if (p > 0 && F->getNodeLevel(p) == 2) p = F->getDownPtr(p, x2);
  if (p > 0 && F->getNodeLevel(p) == 1) p = F->getDownPtr(p, x1);
  vp_assert(p <= 0, "walk ends in a terminal");
  long v; F->getValueFromHandle(p, v);
  return v;
}
static void audit_node(node_handle p) {
  if (p <= 0) return;
  vp_assert(F->isActiveNode(p), "reachable node is active");
  int L = F->getNodeLevel(p);
  vp_assert(L == 1 || L == 2, "node level in range");
  node_handle c[2];
  for (int i = 0; i < 2; i++) {
    c[i] = F->getDownPtr(p, i);
    vp_assert(c[i] <= 0 || (F->isActiveNode(c[i]) && F->getNodeLevel(c[i]) < L), "children are terminals or live nodes strictly below");
#if RULE == 1
    if (L == 2) vp_assert(c[i] == 0 || (c[i] > 0 && F->getNodeLevel(c[i]) == 1), "quasi-reduced: no level is skipped above a non-zero terminal");
#endif
  }
  vp_assert(!(c[0] == 0 && c[1] == 0), "no node is entirely transparent");
#if RULE == 0
  vp_assert(c[0] != c[1], "fully reduced: no redundant node is stored");
#endif
  // the three unpacked views agree with getDownPtr and hash identically
  unsigned h0 = 0;
  for (int k = 0; k < 3; k++) {
    unpacked_node* r = unpacked_node::newFromNode(F, p, k == 0 ? FULL_ONLY : k == 1 ? SPARSE_ONLY : FULL_OR_SPARSE);
    if (r->isFull()) {
      for (unsigned i = 0; i < 2; i++) vp_assert((i < r->getSize() ? r->down(i) : 0) == c[i], "full view agrees with the stored children");
    } else {
      node_handle d[2] = {0, 0};
      for (unsigned z = 0; z < 2; z++) if (z < r->getSize()) { unsigned i = r->index(z); if (i < 2) d[i] = r->down(z); vp_assert(r->down(z) != 0, "sparse view lists no transparent child"); }
      vp_assert(d[0] == c[0] && d[1] == c[1], "sparse view agrees with the stored children");
    }
    r->computeHash();
    if (k == 0) h0 = r->hash(); else vp_assert(r->hash() == h0, "all views of a node hash identically");
    unpacked_node::Recycle(r);
  }
  vp_assert(F->hashNode(p) == h0, "stored hash equals the hash of the views");
}

extern "C" void c01_reduce()
{
  fixture X = make_fixture(); F = X.f;
  long t[2][2], u[2][2];
  for (int i = 0; i < 2; i++) for (int j = 0; j < 2; j++) { t[i][j] = (long)(int) vp_range(0, 3) - 1; u[i][j] = (long)(int) vp_range(0, 3) - 1; }
  // build 1: full nodes, low child first
  node_handle a0 = build_level1(t[0][0], t[0][1], false);
  node_handle a1 = build_level1(t[1][0], t[1][1], false);
  node_handle r1 = build_root(a0, a1, false);
  // build 2: sparse nodes, high child first
  node_handle b1 = build_level1(t[1][0], t[1][1], true);
  node_handle b0 = build_level1(t[0][0], t[0][1], true);
  node_handle r2 = build_root(b0, b1, true);
  vp_assert(r1 == r2, "the same function built along two paths gives the identical edge");
  for (int i = 0; i < 2; i++) for (int j = 0; j < 2; j++) vp_assert(eval(r1, i, j) == t[i][j], "the built edge evaluates to the table");
  // a second function
  node_handle c0 = build_level1(u[0][0], u[0][1], false);
  node_handle c1 = build_level1(u[1][0], u[1][1], true);
  node_handle r3 = build_root(c0, c1, false);
  bool same = true;
  for (int i = 0; i < 2; i++) for (int j = 0; j < 2; j++) if (t[i][j] != u[i][j]) same = false;
  vp_assert((r3 == r1) == same, "two edges are equal iff they denote the same function");
  if (same) vp_cover(1); else vp_cover(2);
  if (r1 <= 0) vp_cover(3);                       // constant function: reduced to a terminal (fully reduced)
  if (r1 > 0 && F->getNodeLevel(r1) == 1) vp_cover(4);   // top level skipped
  // C02 audit of everything reachable
  audit_node(r1); audit_node(r3);
  if (r1 > 0) { audit_node(F->getDownPtr(r1, 0)); audit_node(F->getDownPtr(r1, 1)); }
  if (r3 > 0) { audit_node(F->getDownPtr(r3, 0)); audit_node(F->getDownPtr(r3, 1)); }
  // node count == number of distinct live nodes among those we hold
  node_handle all[6] = { r1, r3, r1 > 0 ? F->getDownPtr(r1, 0) : 0, r1 > 0 ? F->getDownPtr(r1, 1) : 0, r3 > 0 ? F->getDownPtr(r3, 0) : 0, r3 > 0 ? F->getDownPtr(r3, 1) : 0 };
  long distinct = 0;
  for (int i = 0; i < 6; i++) { bool fresh = all[i] > 0; for (int j = 0; j < i; j++) if (all[j] == all[i]) fresh = false; if (fresh) distinct++; }
  vp_assert(F->getCurrentNumNodes() == distinct, "node count equals the number of distinct live nodes");
  vp_reach();
}
