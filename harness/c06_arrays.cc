// C06 L1: the dynamic-width arrays behind the reference / cache counters and the
// address table (src/arrays.h, src/arrays.cc).
// State construction: real constructor + real expand(N); width transitions are reached
// through the class's own increment (255->256, 65535->65536) after the cell was put at
// the boundary by a field write; the remaining cells are then written with symbolic
// values *respecting the class invariant* (census counters exact).  Then two nondet
// operations are applied and the abstract value vector + invariant are checked.
// Field access goes through a mirror struct of identical layout (static_assert'ed).
#include "vp.h"
#include "defines.h"
#include "error.h"
#include "arrays.h"
using namespace MEDDLY;

#ifndef N
#define N 3
#endif
#define NMAX (N + 2)

struct counter_mirror {
  array_watcher* watch; unsigned char* data8; unsigned short* data16; unsigned int* data32;
  size_t size; size_t counts_09bit; size_t counts_17bit; unsigned bytes;
};
static_assert(sizeof(counter_mirror) == sizeof(counter_array), "counter_array layout changed");

static void check_inv(counter_array &C, const unsigned* v, size_t n) {
  counter_mirror* M = (counter_mirror*) &C;
  vp_assert(M->size == n, "size as expected");
  size_t c9 = 0, c17 = 0; unsigned mx = 0;
  for (size_t i = 0; i < NMAX; i++) if (i < n) {
    vp_assert(C.get(i) == v[i], "counter value equals the abstract count");
    if (v[i] >= 256) c9++;
    if (v[i] >= 65536) c17++;
  }
  vp_assert(M->bytes == 1 || M->bytes == 2 || M->bytes == 4, "element width is 8/16/32 bits");
  vp_assert(C.entry_bits() == 8 * M->bytes, "entry_bits consistent");
  if (M->bytes == 1) vp_assert(M->data8 && !M->data16 && !M->data32 && c9 == 0 && M->counts_09bit == 0 && M->counts_17bit == 0, "8-bit mode invariant");
  if (M->bytes == 2) vp_assert(!M->data8 && M->data16 && !M->data32 && c17 == 0 && M->counts_09bit == c9 && M->counts_17bit == 0, "16-bit mode invariant (census of counts >= 256 exact)");
  if (M->bytes == 4) vp_assert(!M->data8 && !M->data16 && M->data32 && M->counts_09bit == c9 && M->counts_17bit == c17, "32-bit mode invariant (both censuses exact)");
}

#ifndef MODE
#define MODE 0
#endif

// non-resizing operations (may change the width by widening, and the censuses)
static void count_op(counter_array &C, unsigned* v, size_t n, unsigned op) {
  size_t i = vp_range(0, N-1), j = vp_range(0, N-1);
  switch (op) {
    case 0: vp_assume(v[i] != 0xffffffffu); C.increment(i); v[i]++; break;
    case 1: vp_assume(v[i] > 0); C.decrement(i); v[i]--; break;
    case 2: {
      vp_assume(v[i] != 0xffffffffu);
      bool z = C.isZeroBeforeIncrement(i);
      vp_assert(z == (v[i] == 0), "isZeroBeforeIncrement reports whether the old count was 0");
      v[i]++; break;
    }
    case 3: {
      vp_assume(v[i] > 0);
      bool p = C.isPositiveAfterDecrement(i);
      v[i]--;
      vp_assert(p == (v[i] > 0), "isPositiveAfterDecrement reports whether the new count is > 0");
      break;
    }
    default: { C.swap(i, j); unsigned t = v[i]; v[i] = v[j]; v[j] = t; break; }
  }
}

// resizing operations; the new size is made concrete by a case split
static void resize_op(counter_array &C, unsigned* v, size_t &n, bool grow) {
  if (grow) {
    if (vp_nondet_bool()) { C.expand(N+1); v[N] = 0; n = N+1; } else { C.expand(N+2); v[N] = 0; v[N+1] = 0; n = N+2; vp_cover(7); }
  } else {
    // caller contract (node_headers::shrinkHandleList): only trailing handles that are deleted
    // and uncached are dropped, i.e. the dropped counters are all zero
    if (vp_nondet_bool()) { vp_assume(v[N-1] == 0); C.shrink(N-1); n = N-1; }
    else { for (int k = 1; k < N; k++) vp_assume(v[k] == 0); C.shrink(1); n = 1; vp_cover(8); }
  }
}

static void build(counter_array &C, unsigned* v) {
  counter_mirror* M = (counter_mirror*) &C;
  C.expand(N);
  for (int i = 0; i < NMAX; i++) v[i] = 0;
#if MODE >= 1
  {                              // reach 16-bit mode through the real 255 -> 256 transition
    size_t j = vp_range(0, N-1);
    M->data8[j] = 255;
    C.increment(j);
    v[j] = 256;
    vp_assert(M->bytes == 2, "incrementing 255 widens the array to 16 bits");
    check_inv(C, v, N);
  }
#endif
#if MODE == 2
  {                              // reach 32-bit mode through the real 65535 -> 65536 transition
    size_t j = vp_range(0, N-1);
    M->counts_09bit += (v[j] >= 256) ? 0 : 1;
    M->data16[j] = 65535;
    C.increment(j);
    v[j] = 65536;
    vp_assert(M->bytes == 4, "incrementing 65535 widens the array to 32 bits");
    check_inv(C, v, N);
  }
#endif
  // symbolic contents within the current width, census kept exact
  size_t c9 = 0, c17 = 0;
  for (size_t i = 0; i < N; i++) {
    unsigned x = vp_nondet_u32();
#if MODE == 0
    vp_assume(x <= 255); M->data8[i] = x;
#elif MODE == 1
    vp_assume(x <= 65535); M->data16[i] = x;
#else
    M->data32[i] = x;
#endif
    v[i] = x;
    if (x >= 256) c9++;
    if (x >= 65536) c17++;
  }
  M->counts_09bit = c9; M->counts_17bit = c17;
  check_inv(C, v, N);
}

// one operation (any of the seven) from an arbitrary valid state of the given width
extern "C" void c06_counter()
{
  counter_array C; counter_mirror* M = (counter_mirror*) &C;
  unsigned v[NMAX]; size_t n = N;
  build(C, v);
  unsigned w0 = M->bytes;
  unsigned op = vp_range(0, 6);
  if (op <= 4) count_op(C, v, n, op); else resize_op(C, v, n, op == 5);
  check_inv(C, v, n);
  if (M->bytes > w0) vp_cover(3);
  if (M->bytes < w0) vp_cover(4);
  vp_reach();
}

// a counting operation followed by a resize: the resize must act on the (possibly changed)
// width and on censuses that may just have dropped to zero
extern "C" void c06_counter_seq()
{
  counter_array C; counter_mirror* M = (counter_mirror*) &C;
  unsigned v[NMAX]; size_t n = N;
  build(C, v);
  count_op(C, v, n, vp_range(0, 3));
  check_inv(C, v, n);
  unsigned w1 = M->bytes;
  bool grow = vp_nondet_bool();
  // make the current width concrete for the reallocs (constant propagated from the branch condition)
  if (M->bytes == 1) resize_op(C, v, n, grow); else if (M->bytes == 2) resize_op(C, v, n, grow); else resize_op(C, v, n, grow);
  check_inv(C, v, n);
  if (M->bytes < w1) vp_cover(5);
  vp_reach();
}

// ---------------------------------------------------------------- address_array (32 <-> 64 bit)
struct address_mirror {
  array_watcher* watch; unsigned int* data32; unsigned long* data64; size_t size; size_t num_large_elements; unsigned bytes;
};
static_assert(sizeof(address_mirror) == sizeof(address_array), "address_array layout changed");

static void check_addr(address_array &A, const unsigned long* v, size_t n) {
  address_mirror* M = (address_mirror*) &A;
  vp_assert(M->size == n, "size as expected");
  size_t big = 0;
  for (size_t i = 0; i < NMAX; i++) if (i < n) {
    vp_assert(A.get(i) == v[i], "address value equals the abstract value");
    if (v[i] >> 32) big++;
  }
  if (M->bytes == 4) vp_assert(M->data32 && !M->data64 && big == 0 && M->num_large_elements == 0, "32-bit mode invariant");
  else vp_assert(M->bytes == 8 && !M->data32 && M->data64 && M->num_large_elements == big, "64-bit mode invariant (census of large elements exact)");
}

extern "C" void c06_address()
{
  address_array A;
  A.expand(N);
  address_mirror* M = (address_mirror*) &A;
  unsigned long v[NMAX]; size_t n = N;
  for (int i = 0; i < NMAX; i++) v[i] = 0;
  // symbolic contents: arbitrary 64-bit values written through the real set()
  for (size_t i = 0; i < N; i++) { unsigned long x = vp_nondet_u64(); A.set(i, x); v[i] = x; }
  check_addr(A, v, n);
  if (M->bytes == 8) vp_cover(1);
  // possibly drop all large elements again
  for (size_t i = 0; i < N; i++) if (vp_nondet_bool()) { unsigned long x = vp_nondet_u32(); A.set(i, x); v[i] = x; }
  check_addr(A, v, n);
  unsigned w = M->bytes;
  unsigned op = vp_range(0, 2);
  if (op == 0) { size_t i = vp_range(0, N-1), j = vp_range(0, N-1); A.swap(i, j); unsigned long t = v[i]; v[i] = v[j]; v[j] = t; }
  else if (op == 1) {
    if (M->bytes == 4) { A.expand(N+1); } else { A.expand(N+1); }
    v[N] = 0; n = N+1; vp_cover(3);
  } else {
    // caller contract: dropped cells belong to deleted handles (0 or a 32-bit free-list link)
    vp_assume((v[N-1] >> 32) == 0);
    if (M->bytes == 4) { A.shrink(N-1); } else { A.shrink(N-1); }
    n = N-1; vp_cover(4);
  }
  check_addr(A, v, n);
  if (M->bytes < w) vp_cover(2);
  vp_reach();
}

// ---------------------------------------------------------------- level_array
extern "C" void c06_level()
{
  unsigned maxl = vp_nondet_u32();
  vp_assume(maxl >= 1 && maxl <= 0x7fffffffu);
  level_array L(maxl);
  L.expand(N);
  int v[NMAX]; size_t n = N;
  for (int i = 0; i < NMAX; i++) v[i] = 0;
  for (int step = 0; step < 3; step++) {
    unsigned op = vp_range(0, 2);
    size_t i = vp_range(0, NMAX-1), j = vp_range(0, NMAX-1);
    vp_assume(i < n && j < n);
    if (op == 0) {
      int x = (int) vp_nondet_u32();
      // levels are in [-maxl, maxl]
      vp_assume(x >= -(int)maxl && x <= (int)maxl);
      L.set(i, x); v[i] = x;
    } else if (op == 1) {
      L.swap(i, j); int t = v[i]; v[i] = v[j]; v[j] = t;
    } else {
      size_t ns = vp_range(1, NMAX);
      if (L.entry_bits() == 8)       { if (ns <= 3) L.expand(3); else if (ns == 4) L.expand(4); else L.expand(5); }
      else if (L.entry_bits() == 16) { if (ns <= 3) L.expand(3); else if (ns == 4) L.expand(4); else L.expand(5); }
      else                           { if (ns <= 3) L.expand(3); else if (ns == 4) L.expand(4); else L.expand(5); }
      if (ns > n) { for (size_t k = 0; k < NMAX; k++) if (k >= n && k < ns) v[k] = 0; n = ns; vp_cover(1); }
    }
    for (size_t k = 0; k < NMAX; k++) if (k < n) vp_assert(L.get(k) == v[k], "level array returns what was stored (no truncation at the chosen width)");
  }
  if (L.entry_bits() == 8) vp_cover(2);
  if (L.entry_bits() == 16) vp_cover(3);
  if (L.entry_bits() == 32) vp_cover(4);
  vp_reach();
}
