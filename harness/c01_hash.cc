// C01/C02 L1: node hash and pack/unpack codec.  Real unpacked_node.cc, storage/simple.cc,
// hash_stream.h, edge_value.h and a real memory manager (orig_grid, small arena, hook H1),
// on a forest record (only attribute fields are read).
// A node of a level of size NSZ is given by the shape PAT (bit i set = child i is not
// transparent; compile-time, so that every chunk size is concrete) with SYMBOLIC child
// handles and, for EV forests, SYMBOLIC edge values.
//   * hash(unpacked full) == hash(unpacked sparse) == hashNode(packed), for the storage
//     option OPT in {FULL_ONLY, SPARSE_ONLY, FULL_OR_SPARSE};
//   * areDuplicates(packed, full) and (packed, sparse) hold; for a second symbolic node w,
//     areDuplicates(packed, w) <=> same child map;
//   * fillUnpacked in all three modes, getDownPtr (both overloads) and isSingletonNode
//     return the child map that was stored;
//   * the unique-table link slot round-trips and does not disturb the node.
// -DKIND=0 (MT, void edges) | 1 (EV+ long, hashed edge values)   -DPAT=1..7  -DOPT=0|1|2
#include "forest_record.h"
#define private public
#define protected public
#include "storage/simple.cc"
#undef private
#undef protected
#include "memory_managers/orig_grid.h"
#include "memory_managers/array_grid.h"
#include "memory_managers/heap_manager.h"
#include "memory_managers/freelists.h"
#ifndef MMSTYLE
#define MMSTYLE orig_grid_style
#endif
using namespace MEDDLY;

#define NSZ 3
#ifndef PAT
#define PAT 5
#endif
#ifndef OPT
#define OPT 2
#endif
#ifndef KIND
#define KIND 0
#endif

static const node_storage_flags OPTS[3] = { FULL_ONLY, SPARSE_ONLY, FULL_OR_SPARSE };

struct childmap { node_handle dn[NSZ]; long ev[NSZ]; };

static forest* F;

// hook H6: every word fed to a hash_stream is reported here.  Equal word sequences give
// equal hashes because the real hash_stream is a fold over the words (kernel c01_hashstream).
#define HLOG_MAX 12
static unsigned hlog[HLOG_MAX]; static unsigned hlog_n = 0;
extern "C" void vp_hashlog(unsigned v) { vp_assert(hlog_n < HLOG_MAX, "hash log large enough"); if (hlog_n < HLOG_MAX) hlog[hlog_n] = v; hlog_n++; }
struct hseq { unsigned w[HLOG_MAX]; unsigned n; };
static void take_log(hseq &q) { q.n = hlog_n; for (unsigned i = 0; i < HLOG_MAX; i++) q.w[i] = hlog[i]; hlog_n = 0; }
static bool same_seq(const hseq &a, const hseq &b) {
  bool ok = (a.n == b.n);
  for (unsigned i = 0; i < HLOG_MAX; i++) if (i < a.n && a.w[i] != b.w[i]) ok = false;
  return ok;
}

static void fill_full(unpacked_node &u, const childmap &m) {
  u.setFull(); u.resize(NSZ); u.setLevel(1);
  for (unsigned i = 0; i < NSZ; i++) {
#if KIND == 0
    u.setFull(i, m.dn[i]);
#else
    u.setFull(i, edge_value(m.ev[i]), m.dn[i]);
#endif
  }
}
static unsigned fill_sparse(unpacked_node &u, const childmap &m) {
  u.setSparse(); u.resize(NSZ); u.setLevel(1);
  unsigned z = 0;
  for (unsigned i = 0; i < NSZ; i++) {
    bool transparent = (m.dn[i] == F->transparent_node)
#if KIND != 0
      && (m.ev[i] == 0)
#endif
      ;
    if (transparent) continue;
#if KIND == 0
    u.setSparse(z, i, m.dn[i]);
#else
    u.setSparse(z, i, edge_value(m.ev[i]), m.dn[i]);
#endif
    z++;
  }
  u.shrink(z);
  return z;
}
static bool same_edge(const unpacked_node &u, unsigned k, const childmap &m, unsigned i) {
  if (u.down(k) != m.dn[i]) return false;
#if KIND != 0
  if (long(u.edgeval(k)) != m.ev[i]) return false;
#endif
  return true;
}
static bool denotes(const unpacked_node &u, const childmap &m) {
  bool ok = true;
  if (u.isFull()) {
    for (unsigned i = 0; i < NSZ; i++) if (i < u.getSize()) { if (!same_edge(u, i, m, i)) ok = false; }
      else { if (m.dn[i] != F->transparent_node) ok = false; }
  } else {
    bool seen[NSZ]; for (unsigned i = 0; i < NSZ; i++) seen[i] = false;
    for (unsigned z = 0; z < NSZ; z++) if (z < u.getSize()) {
      unsigned i = u.index(z);
      if (i >= NSZ) { ok = false; continue; }
      for (unsigned j = 0; j < NSZ; j++) if (j == i) { if (!same_edge(u, z, m, j)) ok = false; seen[j] = true; }
      if (z > 0 && u.index(z-1) >= i) ok = false;    // strictly increasing indexes
    }
    for (unsigned i = 0; i < NSZ; i++) if (!seen[i] && m.dn[i] != F->transparent_node) ok = false;
  }
  return ok;
}

static void symbolic_map(childmap &m, unsigned pat) {
  for (unsigned i = 0; i < NSZ; i++) {
    if (pat & (1u << i)) {
      m.dn[i] = (node_handle) vp_nondet_u32();
      vp_assume(m.dn[i] != F->transparent_node);
#if KIND != 0
      m.ev[i] = (long) vp_nondet_u64();
      vp_assume(m.dn[i] == -1 || m.dn[i] > 0);       // EV: omega-normal terminal or a node
#endif
    } else {
      m.dn[i] = F->transparent_node; m.ev[i] = 0;     // canonical transparent edge
    }
  }
}

#define SETUP() \
  setup_forest(); memstats ms; MMSTYLE mst("mm"); simple_separated S("simple", F, &mst, ms); F->nodeMan = &S;

static void setup_forest() {
#if KIND == 0
  F = forest_record(false, range_type::INTEGER, edge_labeling::MULTI_TERMINAL, reduction_rule::FULLY_REDUCED, edge_type::VOID, terminal_type::INTEGER);
  F->transparent_node = 0; F->hash_edge_values = false;
#else
  F = forest_record(false, range_type::INTEGER, edge_labeling::EVPLUS, reduction_rule::FULLY_REDUCED, edge_type::LONG, terminal_type::OMEGA);
  F->transparent_node = OMEGA_INFINITY; F->transparent_edge = edge_value(0L); F->hash_edge_values = true;
#endif
  F->unhashed_bytes = 0; F->hashed_bytes = 0; F->fid = 1;
}

// ---- hash agreement: unpacked full == unpacked sparse == packed (any storage form)
extern "C" void c01_hash()
{
  SETUP();
  childmap m; symbolic_map(m, PAT);
  unpacked_node uf(F, FULL_OR_SPARSE), us(F, FULL_OR_SPARSE);
  fill_full(uf, m);
  unsigned nnz = fill_sparse(us, m);
  vp_assert(nnz == (unsigned) __builtin_popcount(PAT), "sparse form has one entry per non-transparent child");
  hseq hf, hs, hp, hq;
  hlog_n = 0;
  uf.computeHash(); take_log(hf);
  us.computeHash(); take_log(hs);
  vp_assert(hf.n == nnz * (KIND == 0 ? 2 : 4), "one (index, child[, edge value]) group per non-transparent child is hashed");
  vp_assert(same_seq(hf, hs), "full and sparse unpacked forms feed the same word sequence to the hash");
  bool from_sparse = vp_nondet_bool();
  node_address addr = S.makeNode(7, from_sparse ? us : uf, OPTS[OPT]);
  vp_assert(addr != 0, "node stored");
  if (from_sparse) vp_cover(1); else vp_cover(2);
  const node_handle* chunk = S.getChunkAddress(addr);
  bool stored_sparse = simple_separated::isSparse(simple_separated::getRawSize(chunk));
  if (stored_sparse) vp_cover(3); else vp_cover(4);
  if (OPT == 0) vp_assert(!stored_sparse, "FULL_ONLY stores a full node");
  if (OPT == 1) vp_assert(stored_sparse, "SPARSE_ONLY stores a sparse node");
  hlog_n = 0;
  (void) S.hashNode(1, addr); take_log(hp);
  vp_assert(same_seq(hp, hf), "the packed node feeds the same word sequence to the hash as the unpacked node");
  node_handle nx = (node_handle) vp_nondet_u32();
  vp_assume(nx >= 0);
  S.setNextOf(addr, nx);
  vp_assert(S.getNextOf(addr) == nx, "chain link round-trips");
  (void) S.hashNode(1, addr); take_log(hq);
  vp_assert(same_seq(hq, hf), "chain link does not change what is hashed");
  vp_reach();
}

// ---- codec: duplicate test and the three unpacked views
extern "C" void c01_codec()
{
  SETUP();
  childmap m; symbolic_map(m, PAT);
  unpacked_node uf(F, FULL_OR_SPARSE), us(F, FULL_OR_SPARSE);
  fill_full(uf, m);
  unsigned nnz = fill_sparse(us, m);
  bool from_sparse = vp_nondet_bool();
  node_address addr = S.makeNode(7, from_sparse ? us : uf, OPTS[OPT]);
  vp_assert(addr != 0, "node stored");
  vp_assert(S.areDuplicates(addr, uf), "packed node duplicates its full unpacked form");
  vp_assert(S.areDuplicates(addr, us), "packed node duplicates its sparse unpacked form");
  // a second symbolic node of any shape
  childmap w; unsigned wpat = vp_range(1, 7);
  symbolic_map(w, wpat);
  bool same = true;
  for (unsigned i = 0; i < NSZ; i++) { if (w.dn[i] != m.dn[i]) same = false;
#if KIND != 0
    if (w.ev[i] != m.ev[i]) same = false;
#endif
  }
  unpacked_node wf(F, FULL_OR_SPARSE), ws(F, FULL_OR_SPARSE);
  fill_full(wf, w); fill_sparse(ws, w);
  vp_assert(S.areDuplicates(addr, wf) == same, "duplicate test against a full unpacked node is exact");
  vp_assert(S.areDuplicates(addr, ws) == same, "duplicate test against a sparse unpacked node is exact");
  if (same) vp_cover(5);
  if (!same && wpat == PAT) vp_cover(6);
  for (int k = 0; k < 3; k++) {
    unpacked_node r(F, FULL_OR_SPARSE);
    r.resize(NSZ); r.setLevel(1);
    S.fillUnpacked(r, addr, OPTS[k]);
    vp_assert(denotes(r, m), "unpacked view denotes the stored child map");
    if (k == 0) vp_assert(r.isFull(), "FULL_ONLY view is full");
    if (k == 1) vp_assert(r.isSparse() && r.getSize() == nnz, "SPARSE_ONLY view is sparse with one entry per non-transparent child");
  }
  for (unsigned i = 0; i < NSZ; i++) {
    vp_assert(S.getDownPtr(addr, i) == m.dn[i], "getDownPtr(i) returns the stored child");
    edge_value ev = F->transparent_edge; node_handle dn = 12345;
    S.getDownPtr(addr, i, ev, dn);
    vp_assert(dn == m.dn[i], "getDownPtr(i, ev, dn) returns the stored child");
#if KIND != 0
    vp_assert(long(ev) == m.ev[i], "getDownPtr(i, ev, dn) returns the stored edge value");
#endif
  }
  unsigned sidx = 99; node_handle sdn = 0;
  bool single = S.isSingletonNode(addr, sidx, sdn);
  vp_assert(single == (nnz == 1), "isSingletonNode iff exactly one non-transparent child");
  if (single) { bool ok = false; for (unsigned i = 0; i < NSZ; i++) if (i == sidx) ok = (PAT == (1u << i)) && sdn == m.dn[i]; vp_assert(ok, "singleton index and child are reported correctly"); vp_cover(7); }
  node_handle nx = (node_handle) vp_nondet_u32();
  vp_assume(nx >= 0);
  S.setNextOf(addr, nx);
  vp_assert(S.areDuplicates(addr, uf), "chain link does not change the content");
  vp_reach();
}

// ---- C12: storage behaves the same under every memory manager and storage option:
// store A and B, release A (children are terminals, so nothing else is touched), store C
// (which may reuse or split A's hole, leaving padding recorded in the node tail); B and C
// must read back exactly.  Shapes PAT (A), PATB, PATC compile-time; children symbolic terminals.
#ifndef PATB
#define PATB 5
#endif
#ifndef PATC
#define PATC 1
#endif
static void terminal_children(childmap &m) {
  for (unsigned i = 0; i < NSZ; i++) if (m.dn[i] != F->transparent_node) vp_assume(m.dn[i] < 0);
}
extern "C" void c12_store()
{
  SETUP();
  childmap a, b, c; symbolic_map(a, PAT); symbolic_map(b, PATB); symbolic_map(c, PATC);
  terminal_children(a); terminal_children(b); terminal_children(c);
  unpacked_node ua(F, FULL_OR_SPARSE), ub(F, FULL_OR_SPARSE), uc(F, FULL_OR_SPARSE);
  fill_full(ua, a); fill_full(ub, b); fill_full(uc, c);
  node_address A = S.makeNode(7, ua, OPTS[OPT]);
  node_address B = S.makeNode(8, ub, OPTS[OPT]);
  vp_assert(A != 0 && B != 0 && A != B, "two nodes stored at distinct addresses");
  vp_assert(S.areDuplicates(A, ua) && S.areDuplicates(B, ub), "both nodes read back");
  S.unlinkDownAndRecycle(A);
  vp_assert(S.areDuplicates(B, ub), "releasing a node leaves the other node intact");
  node_address C = S.makeNode(9, uc, OPTS[OPT]);
  vp_assert(C != 0 && C != B, "third node stored");
  if (C == A) vp_cover(1);              // the hole was reused
  vp_assert(S.areDuplicates(C, uc), "node stored into recycled memory reads back");
  vp_assert(S.areDuplicates(B, ub), "storing into recycled memory leaves the live node intact");
  {
    unpacked_node r(F, FULL_OR_SPARSE); r.resize(NSZ); r.setLevel(1);
    S.fillUnpacked(r, B, FULL_ONLY);
    vp_assert(denotes(r, b), "live node unpacks to its child map after churn");
    unpacked_node q(F, FULL_OR_SPARSE); q.resize(NSZ); q.setLevel(1);
    S.fillUnpacked(q, C, SPARSE_ONLY);
    vp_assert(denotes(q, c), "node in recycled memory unpacks to its child map");
  }
  S.unlinkDownAndRecycle(B); S.unlinkDownAndRecycle(C);
  vp_reach();
}
