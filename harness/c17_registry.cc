// C17 L2: the registries that make lifecycles safe, real code (forest.cc: registerForest / unregisterForest /
// getForestWithID / registerEdge / unregisterEdge / unregisterDDEdges / markForDeletion; dd_edge.cc: constructors,
// attach / detach, copy, assignment, destructor) over forest records, under a bounded symbolic history of
//   { create forest, destroy forest, construct edge (on a forest or on none), attach edge, edge = edge, destroy edge }.
// Destroying a forest is the registry part of forest::~forest in its order: unregisterDDEdges(); unregisterForest(this).
// Shadow: owner of every edge.  Checked after every step:
//   * an edge reports exactly its owner (getForest), a detached edge reports no forest and holds node 0;
//   * every live forest's root list contains exactly the edges it owns, each once, with consistent back links;
//   * forest identifiers are positive, never issued twice, and an identifier of a destroyed forest resolves to no forest.
// Stand-ins: domain::registerForest / unregisterForest (std::set registry of the domain) and the per-forest
// unpacked-node lists (unpacked_node::initForest / doneForest) are empty; std::string assignment of the edge label is a no-op.
#include "forest_record.h"
using namespace MEDDLY;

#ifndef NSTEPS
#define NSTEPS 4
#endif
#define K NSTEPS
#define NF 3
#define NE 3

void MEDDLY::domain::registerForest(forest*) { }
void MEDDLY::domain::unregisterForest(forest*) { }
void MEDDLY::unpacked_node::initForest(const forest*) { }
void MEDDLY::unpacked_node::doneForest(const forest*) { }

static forest* FS[NF]; static bool alive[NF];
static unsigned issued[NF + K + 1]; static int n_issued;
static unsigned dead_fid[NF + K + 1]; static int n_dead;
static dd_edge* ebuf[NE];      // storage for the edges (typed allocations; objects are constructed / destroyed in place)
static bool made[NE]; static int owner[NE];
static domain* dom;
#define E(i) (*ebuf[i])

static void check_all()
{
  for (int i = 0; i < NE; i++) if (made[i]) {
    forest* want = nullptr;
    for (int j = 0; j < NF; j++) if (owner[i] == j) want = FS[j];
    vp_assert(E(i).getForest() == want, "an edge reports exactly the forest it is attached to (none once that forest is destroyed)");
    if (!want) vp_assert(E(i).parentFID == 0 && E(i).node == 0, "a detached edge is inert: forest id 0, node 0");
  }
  for (int j = 0; j < NF; j++) if (alive[j]) {
    unsigned mine = 0; for (int i = 0; i < NE; i++) if (made[i] && owner[i] == j) mine++;
    vp_assert(FS[j]->countRegisteredEdges() == mine, "a forest's root list holds exactly the edges attached to it");
    const dd_edge* prev = nullptr; unsigned seen = 0;
    for (const dd_edge* r = FS[j]->roots; r && seen <= NE; r = r->next, seen++) {
      bool ours = false; for (int i = 0; i < NE; i++) if (made[i] && owner[i] == j && r == &E(i)) ours = true;
      vp_assert(ours, "every entry of the root list is an edge attached to this forest");
      vp_assert(r->prev == prev, "root list back links are consistent");
      prev = r;
    }
    vp_assert(forest::getForestWithID(FS[j]->FID()) == FS[j], "a live forest is found by its identifier");
  }
  for (int k = 0; k < NF + K + 1; k++) if (k < n_dead) vp_assert(forest::getForestWithID(dead_fid[k]) == nullptr, "the identifier of a destroyed forest resolves to no forest");
}

extern "C" void c17_registry()
{
  forest::all_forests.reserve(16);      // capacity first: the registry vector is never reallocated inside the history (its growth is libstdc++ code)
  forest::initStatics();
  dom = (domain*) calloc(1, sizeof(domain)); dom->nVars = 1;
  for (int j = 0; j < NF; j++) { alive[j] = false; FS[j] = nullptr; }
  for (int i = 0; i < NE; i++) { made[i] = false; owner[i] = -1; dd_edge* p = (dd_edge*) calloc(1, sizeof(dd_edge)); p->node = 0; ebuf[i] = p; }   // (the field write makes the allocation typed for the translator)
  n_issued = 0; n_dead = 0;
  for (int step = 0; step < K; step++) {
    unsigned op = vp_range(0, 5);
    unsigned i = vp_range(0, NE - 1), i2 = vp_range(0, NE - 1), j = vp_range(0, NF - 1);
    bool none = vp_nondet_bool();
    // (indices are matched against constants so that every access below is to a fixed object)
    if (op == 0) {
      for (unsigned jj = 0; jj < NF; jj++) if (j == jj) {
        vp_assume(!alive[jj]);
        FS[jj] = forest_record(false, range_type::BOOLEAN, edge_labeling::MULTI_TERMINAL, reduction_rule::FULLY_REDUCED, edge_type::VOID, terminal_type::BOOLEAN);
        FS[jj]->d = dom;
        forest::registerForest(FS[jj]);
        unsigned id = FS[jj]->FID();
        vp_assert(id != 0, "forest identifiers are positive (0 means no forest)");
        for (int k = 0; k < NF + K + 1; k++) if (k < n_issued) vp_assert(issued[k] != id, "a forest identifier is never issued twice within one initialisation");
        issued[n_issued++] = id; alive[jj] = true;
        vp_cover(1);
      }
    } else if (op == 1) {
      for (unsigned jj = 0; jj < NF; jj++) if (j == jj) {
        vp_assume(alive[jj]);
        if (none) FS[jj]->markForDeletion();       // (what domain::markForDeletion does first)
        FS[jj]->unregisterDDEdges();
        forest::unregisterForest(FS[jj]);
        dead_fid[n_dead++] = FS[jj]->FID();
        for (int e = 0; e < NE; e++) if (owner[e] == int(jj)) { owner[e] = -1; vp_cover(2); }
        alive[jj] = false; FS[jj] = nullptr;
      }
    } else if (op == 2) {
      for (unsigned ii = 0; ii < NE; ii++) if (i == ii) {
        vp_assume(!made[ii]);
        bool onf = false;
        for (unsigned jj = 0; jj < NF; jj++) if (j == jj && !none && alive[jj]) { new (ebuf[ii]) dd_edge(FS[jj]); onf = true; }
        if (!onf) new (ebuf[ii]) dd_edge(nullptr);
        made[ii] = true; owner[ii] = onf ? int(j) : -1;
      }
    } else if (op == 3) {
      for (unsigned ii = 0; ii < NE; ii++) if (i == ii) {
        vp_assume(made[ii]);
        bool onf = false;
        for (unsigned jj = 0; jj < NF; jj++) if (j == jj && !none && alive[jj]) { E(ii).attach(FS[jj]); onf = true; }
        if (!onf) E(ii).attach(nullptr);
        owner[ii] = onf ? int(j) : -1;
        vp_cover(3);
      }
    } else if (op == 4) {
      for (unsigned ii = 0; ii < NE; ii++) for (unsigned kk = 0; kk < NE; kk++) if (i == ii && i2 == kk) {
        vp_assume(made[ii] && made[kk]);
        E(ii) = E(kk);
        owner[ii] = owner[kk];
        if (ii != kk && owner[ii] >= 0) vp_cover(4);
      }
    } else {
      for (unsigned ii = 0; ii < NE; ii++) if (i == ii) {
        vp_assume(made[ii]);
        E(ii).~dd_edge();
        made[ii] = false; owner[ii] = -1;
      }
    }
    check_all();
  }
  vp_reach();
}
