// C19 L1: terminal handle codec (src/terminal.h), all inputs full machine width.
// units: header-only (terminal.h, error.h); error.cc for the error object.
// bound: none on values (64-bit long, 32-bit float patterns); NaN excluded.
#include "vp.h"
#include "defines.h"
#include "error.h"
#include "terminal.h"
using namespace MEDDLY;

static const long TMIN = -1073741824L, TMAX = 1073741823L;

// returns 0 and sets h on success, otherwise the error code + 1
static int enc_int(long v, node_handle &h) {
  try { terminal t(v); h = t.getHandle(); return 0; }
  catch (MEDDLY::error e) { return 1 + int(e.getCode()); }
}

extern "C" void c19_int_roundtrip()
{
  long v = vp_nondet_i64();
  node_handle h = 12345;
  int rc = enc_int(v, h);
  if (v >= TMIN && v <= TMAX) {
    vp_cover(1);
    vp_assert(rc == 0, "in-range integer must encode without error");
    terminal d(terminal_type::INTEGER, h);
    vp_assert(d.getInteger() == v, "integer terminal decode(encode(v)) == v");
    vp_assert((h == 0) == (v == 0), "handle 0 iff value 0 (unique transparent handle)");
    vp_assert(h <= 0, "terminal handles are never positive (positive = nonterminal)");
    long w; d.getValue(w);
    vp_assert(w == v, "getValue<long> agrees");
    if (v == TMIN) vp_cover(2);
    if (v == TMAX) vp_cover(3);
  } else {
    vp_cover(4);
    vp_assert(rc == 1 + int(error::VALUE_OVERFLOW), "out-of-range integer is rejected with VALUE_OVERFLOW");
    vp_assert(h == 12345, "no handle is produced for an out-of-range integer");
    if (v == TMAX + 1) vp_cover(5);
    if (v == TMIN - 1) vp_cover(6);
  }
  vp_reach();
}

extern "C" void c19_int_injective()
{
  long v = vp_nondet_i64(), w = vp_nondet_i64();
  vp_assume(v >= TMIN && v <= TMAX && w >= TMIN && w <= TMAX);
  node_handle hv, hw;
  vp_assert(enc_int(v, hv) == 0 && enc_int(w, hw) == 0, "encodes");
  vp_assert((hv == hw) == (v == w), "distinct integers get distinct handles");
  // int constructor agrees with long constructor
  if (v == w) {
    terminal t((int) v);
    vp_assert(t.getHandle() == hv, "terminal(int) and terminal(long) agree");
    vp_cover(1);
  }
  vp_reach();
}

static inline bool is_nan_bits(unsigned u) { return (u & 0x7f800000u) == 0x7f800000u && (u & 0x007fffffu) != 0; }

extern "C" void c19_real_roundtrip()
{
  unsigned u = vp_nondet_u32();
  vp_assume(!is_nan_bits(u));
  union { unsigned u; float f; } x; x.u = u;
  terminal t(x.f);
  node_handle h = t.getHandle();
  // zero after the documented rounding (fraction LSB dropped): +-0 and the smallest denormals
  bool zero = (u & 0x7ffffffeu) == 0;
  vp_assert((h == 0) == zero, "real handle 0 iff the value is +-0 after rounding (zero has a unique handle)");
  vp_assert(h <= 0, "real terminal handles are never positive");
  terminal d(terminal_type::REAL, h);
  union { unsigned u; float f; } y; y.f = float(d.getReal());
  if (zero) {
    vp_cover(1);
    vp_assert(y.u == 0, "zero decodes to +0");
  } else {
    vp_cover(2);
    vp_assert(y.u == (u & 0xfffffffeu), "real decode(encode(f)) == f with the fraction LSB cleared");
    vp_assert(d.getReal() != 0.0, "a non-zero handle never decodes to zero");
    if ((u & 0x7f800000u) == 0x7f800000u) vp_cover(3);   // infinities survive
    if ((u & 0x7f800000u) == 0) vp_cover(4);             // denormals
    if (u & 0x80000000u) vp_cover(5);
  }
  float back; d.getValue(back);
  union { unsigned u; float f; } z; z.f = back;
  vp_assert(z.u == y.u, "getValue<float> agrees with getReal");
  vp_reach();
}

extern "C" void c19_real_injective()
{
  unsigned u = vp_nondet_u32(), w = vp_nondet_u32();
  vp_assume(!is_nan_bits(u) && !is_nan_bits(w));
  union { unsigned u; float f; } x, y; x.u = u; y.u = w;
  node_handle hu = terminal(x.f).getHandle(), hw = terminal(y.f).getHandle();
  bool zu = (u & 0x7ffffffeu) == 0, zw = (w & 0x7ffffffeu) == 0;
  bool same_after_rounding = (zu && zw) || (!zu && !zw && (u & 0xfffffffeu) == (w & 0xfffffffeu));
  vp_assert((hu == hw) == same_after_rounding, "real handles equal iff values equal after the documented rounding");
  if (hu == hw && u != w) vp_cover(1);
  // double constructor: same handle as the float it rounds to, when exactly representable
  terminal td((double) x.f);
  vp_assert(td.getHandle() == hu, "terminal(double(f)) == terminal(f)");
  vp_reach();
}

extern "C" void c19_bool()
{
  bool b = vp_nondet_bool();
  terminal t(b);
  node_handle h = t.getHandle();
  vp_assert(h == (b ? -1 : 0), "boolean handles are 0 / -1");
  terminal d(terminal_type::BOOLEAN, h);
  vp_assert(d.getBoolean() == b, "boolean round trip");
  // arbitrary handle into BOOLEAN: only 0 and -1 accepted
  node_handle g = vp_nondet_i32();
  int rc = 0; bool val = false;
  try { terminal q(terminal_type::BOOLEAN, g); val = q.getBoolean(); }
  catch (MEDDLY::error e) { rc = 1 + int(e.getCode()); }
  if (g == 0 || g == -1) { vp_cover(1); vp_assert(rc == 0 && val == (g != 0), "valid boolean handle decodes"); }
  else { vp_cover(2); vp_assert(rc == 1 + int(error::MISCELLANEOUS), "invalid boolean handle is rejected"); }
  vp_reach();
}

// conversions used by copy (C10) and by terminal(v, type)
extern "C" void c19_convert()
{
  long v = vp_nondet_i64();
  vp_assume(v >= TMIN && v <= TMAX);
  terminal tb(v, terminal_type::BOOLEAN);
  vp_assert(tb.getBoolean() == (v != 0), "integer -> boolean is (v != 0)");
  terminal ti(v, terminal_type::INTEGER);
  vp_assert(ti.getInteger() == v, "integer -> integer is identity");
  terminal tr(v, terminal_type::REAL);
  vp_assert(tr.getReal() == double(float(v)), "integer -> real is the single-precision conversion of v");
  if (v > 16777216L) vp_cover(1);
  bool b = vp_nondet_bool();
  terminal bi(b, terminal_type::INTEGER);
  vp_assert(bi.getInteger() == (b ? 1 : 0), "boolean -> integer is 0/1");
  terminal br(b, terminal_type::REAL);
  vp_assert(br.getReal() == (b ? 1.0 : 0.0), "boolean -> real is 0.0/1.0");
  unsigned u = vp_nondet_u32();
  vp_assume(!is_nan_bits(u));
  union { unsigned u; float f; } x; x.u = u;
  terminal rb(x.f, terminal_type::BOOLEAN);
  vp_assert(rb.getBoolean() == ((u & 0x7fffffffu) != 0), "real -> boolean is (f != 0)");
  vp_reach();
}
