#include "forest_record.h"
#include "memory_managers/orig_grid.h"
#include "storage/simple.h"
#include "forests/mtmddint.h"
using namespace MEDDLY;
extern "C" void probe_g()
{
    memstats::initGlobalStats();
    unpacked_node::initStatics();
    domain::initDomList();
    forest::initStatics();
    memory_manager_style* mm = new orig_grid_style("grid");
    node_storage_style* ns = new simple_separated_style("simple");
    policies p(false);
    p.nodemm = mm; p.nodestor = ns;
    int bounds[2] = {2, 2};
    domain* d = domain::createBottomUp(bounds, 2);
    forest* f = new mt_mdd_int(d, p);
    // node at level 1: [t5, t7]
    unpacked_node* u = unpacked_node::newWritable(f, 1, FULL_ONLY);
    long a = (long) vp_range(1, 1000), b = (long) vp_range(1, 1000);
    vp_assume(a != b);
    u->setFull(0, f->handleForValue(a)); u->setFull(1, f->handleForValue(b));
    edge_value ev; node_handle n = 0;
    f->createReducedNode(u, ev, n);
    vp_assert(n > 0, "node created");
    unpacked_node* w = unpacked_node::newWritable(f, 1, FULL_ONLY);
    w->setFull(0, f->handleForValue(a)); w->setFull(1, f->handleForValue(b));
    node_handle n2 = 0;
    f->createReducedNode(w, ev, n2);
    vp_assert(n2 == n, "same content, same node");
    vp_reach();
}
