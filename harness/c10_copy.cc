// C10 L1: terminal cases of the three copy implementations (real operations/copy.cc,
// included into this TU), driven on operation records over forest records of every kind,
// with the source value symbolic at full width.  At level 0 the copy of a terminal edge must
// denote the documented scalar conversion of the source value:
//   bool -> 0/1, integer -> real (single precision), non-zero -> true, EV+ value -> terminal,
//   +infinity -> +infinity (EV+ target) or an error (targets that cannot represent it).
#include "forest_record.h"
#define private public
#define protected public
#include "operations/copy.cc"
#undef private
#undef protected
using namespace MEDDLY;

static const long TMIN = -1073741824L, TMAX = 1073741823L;
static inline bool is_nan_bits(unsigned u) { return (u & 0x7f800000u) == 0x7f800000u && (u & 0x007fffffu) != 0; }

// abstract value of a terminal-level edge
struct aval { int kind; /* 0 bool, 1 int, 2 real, 3 +infinity */ long i; float r; bool b; };

static forest* mt_forest(unsigned k, bool rel) {  // 0 bool, 1 int, 2 real
  static const range_type RT[3] = { range_type::BOOLEAN, range_type::INTEGER, range_type::REAL };
  static const terminal_type TT[3] = { terminal_type::BOOLEAN, terminal_type::INTEGER, terminal_type::REAL };
  forest* f = forest_record(rel, RT[k], edge_labeling::MULTI_TERMINAL, reduction_rule::FULLY_REDUCED, edge_type::VOID, TT[k]);
  f->transparent_node = 0;
  return f;
}
static forest* evp_forest(bool wide) {
  forest* f = forest_record(false, range_type::INTEGER, edge_labeling::EVPLUS, reduction_rule::FULLY_REDUCED, wide ? edge_type::LONG : edge_type::INT, terminal_type::OMEGA);
  return f;
}

// read a terminal-level edge of forest f back into an abstract value, with the forest's own decoder
static aval read_edge(forest* f, const edge_value &cv, node_handle cp) {
  aval v; v.kind = 0; v.i = 0; v.r = 0; v.b = false;
  rangeval T; f->getValueForEdge(cv, cp, T);
  if (T.isPlusInfinity()) { v.kind = 3; return v; }
  if (T.isBoolean()) { v.kind = 0; v.b = bool(T); }
  else if (T.isInteger()) { v.kind = 1; v.i = long(T); }
  else { v.kind = 2; v.r = float(double(T)); }
  return v;
}

template <class F> static int code_of(F fn) {
  try { fn(); return 0; } catch (MEDDLY::error e) { return 1 + int(e.getCode()); }
}

// ---------------------------------------------------------------- MT source (copy_MT)
extern "C" void c10_copy_mt()
{
  unsigned sk = vp_range(0, 2), tk = vp_range(0, 3);   // target 0..2 = MT bool/int/real, 3 = EV+ long
  forest* src = mt_forest(sk, false);
  forest* dst = (tk <= 2) ? mt_forest(tk, false) : evp_forest(true);
  copy_MT* op = (copy_MT*) calloc(1, sizeof(copy_MT));
  op->argF = src; op->resF = dst; op->can_use_relation_nodes = false;
  // symbolic source terminal
  node_handle A; aval s; s.i = 0; s.r = 0; s.b = false; s.kind = sk;
  if (sk == 0) { s.b = vp_nondet_bool(); A = src->handleForValue(s.b); }
  else if (sk == 1) { s.i = vp_nondet_i64(); vp_assume(s.i >= TMIN && s.i <= TMAX); A = src->handleForValue(s.i); }
  else { unsigned u = vp_nondet_u32(); vp_assume(!is_nan_bits(u) && (u & 0x7f800000u) != 0x7f800000u); union { unsigned u; float f; } x; x.u = u;
         A = src->handleForValue(x.f); src->getValueFromHandle(A, s.r); vp_assume(s.r > -1e9f && s.r < 1e9f); }
  edge_value cv; node_handle cp = 777;
  int rc = code_of([&]{ op->_compute(0, ~0u, A, cv, cp); });
  {
    vp_assert(rc == 0, "copy of a terminal between compatible kinds succeeds");
    aval t = read_edge(dst, cv, cp);
    if (tk == 0) {
      bool want = (sk == 0) ? s.b : (sk == 1) ? (s.i != 0) : (s.r != 0);
      vp_assert(t.kind == 0 && t.b == want, "copy to boolean: value != 0");
      vp_cover(2);
    } else if (tk == 1 || tk == 3) {
      long want = (sk == 0) ? (s.b ? 1 : 0) : (sk == 1) ? s.i : long(int(s.r));
      vp_assert(t.kind == 1 && t.i == want, "copy to integer (MT or EV+): bool -> 0/1, integer unchanged, real truncated");
      if (tk == 3) vp_cover(3);
    } else {
      float want = (sk == 0) ? (s.b ? 1.0f : 0.0f) : (sk == 1) ? float(int(s.i)) : s.r;
      union { unsigned u; float f; } a, b; a.f = t.r; b.f = want;
      vp_assert(t.kind == 2 && (a.u == (b.u & 0xfffffffeu) || (want == 0 && t.r == 0)), "copy to real: single-precision conversion (one fraction bit dropped by the terminal)");
      vp_cover(4);
    }
  }
  vp_reach();
}

// ---------------------------------------------------------------- EV+ source, push-down copy (copy_EV<EdgeOp_plus<T>>)
extern "C" void c10_copy_evplus()
{
  unsigned tk = vp_range(0, 3);             // 0..2 = MT bool/int/real, 3 = EV+ (other edge width)
  bool swide = vp_nondet_bool();
  forest* src = evp_forest(swide);
  forest* dst = (tk <= 2) ? mt_forest(tk, false) : evp_forest(!swide);
  // source edge: (value, OMEGA_NORMAL) = value, or (0, OMEGA_INFINITY) = +infinity
  bool inf = vp_nondet_bool();
  long v = vp_nondet_i64();
  vp_assume(v >= TMIN && v <= TMAX);
  if (inf) v = 0;
  edge_value av; if (swide) av.set(long(v)); else av.set(int(v));
  node_handle ap = inf ? OMEGA_INFINITY : OMEGA_NORMAL;
  edge_value cv; node_handle cp = 777;
  int rc;
  if (swide) {
    copy_EV< EdgeOp_plus<long> >* op = (copy_EV< EdgeOp_plus<long> >*) calloc(1, sizeof(copy_EV< EdgeOp_plus<long> >));
    op->argF = src; op->resF = dst;
    rc = code_of([&]{ op->_compute(0, ~0u, av, ap, cv, cp); });
  } else {
    copy_EV< EdgeOp_plus<int> >* op = (copy_EV< EdgeOp_plus<int> >*) calloc(1, sizeof(copy_EV< EdgeOp_plus<int> >));
    op->argF = src; op->resF = dst;
    rc = code_of([&]{ op->_compute(0, ~0u, av, ap, cv, cp); });
  }
  if (inf) {
    vp_cover(1);
    if (tk == 3) {
      vp_assert(rc == 0 && read_edge(dst, cv, cp).kind == 3, "+infinity copied into an EV+ forest stays +infinity");
    } else if (tk == 0) {
      aval t = read_edge(dst, cv, cp);
      vp_assert(rc == 0 && t.kind == 0 && t.b, "+infinity copied into a boolean forest is true (non-zero)");
    } else {
      vp_assert(rc != 0, "+infinity copied into a forest that cannot represent it raises an error instead of producing a finite value");
    }
  } else {
    vp_assert(rc == 0, "finite EV+ value copies without error");
    aval t = read_edge(dst, cv, cp);
    if (tk == 0) vp_assert(t.kind == 0 && t.b == (v != 0), "EV+ value to boolean: value != 0");
    else if (tk == 1 || tk == 3) { vp_assert(t.kind == 1 && t.i == v, "EV+ value to integer forest unchanged"); vp_cover(2); }
    else { union { unsigned u; float f; } a, b; a.f = t.r; b.f = float(int(v));
           vp_assert(t.kind == 2 && (a.u == (b.u & 0xfffffffeu) || (v == 0 && t.r == 0)), "EV+ value to real: single-precision conversion"); }
  }
  vp_reach();
}

// ---------------------------------------------------------------- EV source, same labeling (copy_EV_fast)
extern "C" void c10_copy_evfast()
{
  bool swide = vp_nondet_bool(), dwide = vp_nondet_bool();
  forest* src = evp_forest(swide); forest* dst = evp_forest(dwide);
  copy_EV_fast* op = (copy_EV_fast*) calloc(1, sizeof(copy_EV_fast));
  op->argF = src; op->resF = dst;
  bool inf = vp_nondet_bool();
  long v = vp_nondet_i64();
  if (!swide || !dwide) vp_assume(v >= -2147483648L && v <= 2147483647L);
  if (inf) v = 0;
  edge_value av; if (swide) av.set(long(v)); else av.set(int(v));
  node_handle ap = inf ? OMEGA_INFINITY : OMEGA_NORMAL;
  edge_value cv; node_handle cp = 777;
  // compute() is virtual; call the two statements of its body directly
  op->_compute(0, ~0u, ap, cp);
  cv = edge_value(dst->getEdgeType(), av);
  aval t = read_edge(dst, cv, cp);
  if (inf) { vp_assert(t.kind == 3, "+infinity survives the fast EV+ copy"); vp_cover(1); }
  else { vp_assert(t.kind == 1 && t.i == v, "finite value survives the fast EV+ copy across edge widths"); vp_cover(2); }
  vp_reach();
}
